"""Executable oracles over the *reported* results (net.res_*) of the real implementation."""
import numpy as np

BRANCH_COMPONENTS = [
    # table, from column, to column
    ("pipe", "from_junction", "to_junction"),
    ("valve", "junction", "element"),
    ("pump", "from_junction", "to_junction"),
    ("compressor", "from_junction", "to_junction"),
    ("flow_control", "from_junction", "to_junction"),
    ("press_control", "from_junction", "to_junction"),
    ("heat_exchanger", "from_junction", "to_junction"),
    ("heat_consumer", "from_junction", "to_junction"),
    ("circ_pump_pressure", "return_junction", "flow_junction"),
    ("circ_pump_mass", "return_junction", "flow_junction"),
]
NODE_COMPONENTS = [("sink", +1.0), ("source", -1.0), ("mass_storage", +1.0), ("ext_grid", +1.0)]


def has(net, tbl):
    return tbl in net and len(net[tbl]) > 0


def pipe_valve_info(net):
    """for every junction-pipe valve: (valve idx, junction, pipe idx, side) where side is 'from'/'to'"""
    out = []
    if not has(net, "valve"):
        return out
    v = net.valve
    for vi in v.index[v.et.values == "pi"]:
        j, p = int(v.at[vi, "junction"]), int(v.at[vi, "element"])
        if p not in net.pipe.index:
            continue
        side = "from" if int(net.pipe.at[p, "from_junction"]) == j else "to"
        out.append((vi, j, p, side))
    return out


def node_balance(net):
    """per junction: sum of all reported flows leaving it (branch ends, sinks, -sources, storages, ext-grid
    value which is minus the feed-in).  Returns (imbalance Series-like dict, scale dict, supplied set)."""
    junc = net.junction.index.values
    pj = net.res_junction.p_bar
    supplied = set(int(j) for j in junc[~np.isnan(pj.values)])
    imb = {int(j): 0.0 for j in junc}
    scale = {int(j): 0.0 for j in junc}
    nan_at = {int(j): [] for j in junc}
    pv = pipe_valve_info(net)
    pipe_side_taken = {(p, side) for (_vi, _j, p, side) in pv}

    def add(j, val, what):
        j = int(j)
        if np.isnan(val):
            nan_at[j].append(what)
            return
        imb[j] += float(val)
        scale[j] += abs(float(val))

    for tbl, fc, tc in BRANCH_COMPONENTS:
        if not has(net, tbl):
            continue
        res = net["res_" + tbl]
        t = net[tbl]
        for idx in t.index:
            mf, mt = res.at[idx, "mdot_from_kg_per_s"], res.at[idx, "mdot_to_kg_per_s"]
            if tbl == "valve" and t.at[idx, "et"] == "pi":
                add(t.at[idx, fc], mf, ("valve", int(idx), "from"))
                continue                      # the other end is an internal node, not a junction
            if tbl == "pipe" and (int(idx), "from") in pipe_side_taken:
                pass                          # this pipe end hangs on a valve node, not on the junction
            else:
                add(t.at[idx, fc], mf, (tbl, int(idx), "from"))
            if tbl == "pipe" and (int(idx), "to") in pipe_side_taken:
                pass
            else:
                add(t.at[idx, tc], mt, (tbl, int(idx), "to"))
    for tbl, sign in NODE_COMPONENTS:
        if not has(net, tbl):
            continue
        res = net["res_" + tbl]
        t = net[tbl]
        for idx in t.index:
            add(t.at[idx, "junction"], sign * res.at[idx, "mdot_kg_per_s"], (tbl, int(idx)))
    return imb, scale, supplied, nan_at


def total_flows(net):
    """(feed_in, consumption, injection) from the reported node-element results"""
    feed = 0.0
    if has(net, "ext_grid"):
        feed -= float(np.nansum(net.res_ext_grid.mdot_kg_per_s.values))
    cons = 0.0
    for tbl in ("sink", "mass_storage"):
        if has(net, tbl):
            cons += float(np.nansum(net["res_" + tbl].mdot_kg_per_s.values))
    inj = 0.0
    if has(net, "source"):
        inj += float(np.nansum(net.res_source.mdot_kg_per_s.values))
    return feed, cons, inj


def res_tables(net):
    return sorted(k for k in net.keys() if k.startswith("res_") and hasattr(net[k], "columns") and len(net[k]))


FLOW_COLS = ("mdot", "v_", "vdot", "reynolds", "lambda", "dp_friction", "compr_power", "qext", "deltat")


def compare_results(net_a, net_b, atol=1e-10, rtol=1e-9, index_map=None, skip_cols=(), subset=False, flow_scale_tol=None):
    """compare all result tables of two nets element by element; returns list of differences
    (table, column, index, a, b).  NaN must match NaN.  index_map: table -> {index_a: index_b}."""
    diffs = []
    for t in res_tables(net_a):
        if t not in net_b or (len(net_b[t]) != len(net_a[t]) and not subset):
            diffs.append((t, "<shape>", None, len(net_a[t]), len(net_b[t]) if t in net_b else None))
            continue
        a, b = net_a[t], net_b[t]
        im = (index_map or {}).get(t[4:])
        stagnant = None
        if "mdot_from_kg_per_s" in a.columns and "mdot_from_kg_per_s" in b.columns:
            ma = np.abs(a["mdot_from_kg_per_s"].values.astype(float))
            mb_ = b["mdot_from_kg_per_s"]
            mb = np.abs((mb_.reindex([im[i] for i in a.index]).values if im is not None else mb_.reindex(a.index).values).astype(float))
            # a branch whose mass flow is below 1e-6 kg/s in either run carries solver noise (dp ~ m|m| has slope 0 at m = 0,
            # Newton converges linearly there); its velocities are that noise divided by rho*A (large for light gases)
            stagnant = (ma < 1e-6) | (mb < 1e-6)
        for col in a.columns:
            if col in skip_cols or col not in b.columns:
                continue
            va = a[col].values.astype(float)
            vb = (b[col].reindex([im[i] for i in a.index]).values if im is not None else b[col].reindex(a.index).values).astype(float)
            if stagnant is not None and col.startswith(("v_", "vdot")):
                va, vb = va.copy(), vb.copy()
                both = stagnant & ~np.isnan(va) & ~np.isnan(vb)
                va[both] = 0.0
                vb[both] = 0.0
            if stagnant is not None and col in ("lambda", "reynolds"):
                # friction factor / Reynolds number of a branch without flow are 0/0-type quantities (64/Re): not compared when
                # either run has |mdot| < 1e-4 kg/s (NaN from an earlier mask_zero_flow_friction counts as "not compared" too)
                va, vb = va.copy(), vb.copy()
                low = (ma < 1e-4) | (mb < 1e-4) | np.isnan(va) | np.isnan(vb)
                real_nan = np.isnan(ma) | np.isnan(mb)
                low &= ~real_nan
                va[low] = 0.0
                vb[low] = 0.0
            nan_a, nan_b = np.isnan(va), np.isnan(vb)
            at = atol
            if flow_scale_tol is not None and col.startswith(FLOW_COLS):
                # flows of nearly stagnant branches are ill-conditioned (dp ~ m|m|): allow a tolerance relative to the
                # largest value of the column instead of the individual (possibly tiny) value
                fin = np.concatenate([va[~nan_a], vb[~nan_b]])
                at = max(atol, 1e-5, flow_scale_tol * (np.max(np.abs(fin)) if fin.size else 0.0))
            bad = (nan_a != nan_b) | (~nan_a & ~nan_b & (np.abs(va - vb) > at + rtol * np.maximum(np.abs(va), np.abs(vb))))
            for k in np.flatnonzero(bad)[:2]:
                diffs.append((t, col, int(a.index[k]), float(va[k]), float(vb[k])))
    return diffs


TIGHT = {"tol_p": 1e-9, "tol_m": 1e-9, "tol_T": 1e-7, "tol_res": 1e-7, "max_iter_hyd": 150, "max_iter_therm": 150,
         "max_iter_bidirect": 150}


def degenerate(net, eps=1e-7):
    """results sit on a discontinuity of a component characteristic, where round-off decides the branch:
    a pump / compressor with (numerically) zero flow (lift jumps between curve(0) and 0)."""
    for tbl in ("pump", "compressor"):
        if has(net, tbl):
            m = net["res_" + tbl].mdot_from_kg_per_s.values
            if np.any(~np.isnan(m) & (np.abs(m) < eps)):
                return True
    return False


def mask_zero_flow_friction(net_a, net_b, eps=1e-4):
    """lambda / reynolds of a pipe without flow are 0/0-type quantities: blank them in both nets"""
    for net in (net_a, net_b):
        for tbl in ("pipe", "valve", "heat_exchanger"):
            if has(net, tbl):
                r = net["res_" + tbl]
                z = np.abs(r.mdot_from_kg_per_s.values) < eps
                for c in ("lambda", "reynolds"):
                    if c in r.columns:
                        r.loc[r.index[z], c] = np.nan
