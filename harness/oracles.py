"""Executable oracles over the *reported* results (net.res_*) of the real implementation."""
import numpy as np

BRANCH_COMPONENTS = [
    # table, from column, to column
    ("pipe", "from_junction", "to_junction"),
    ("valve", "junction", "element"),
    ("pump", "from_junction", "to_junction"),
    ("compressor", "from_junction", "to_junction"),
    ("flow_control", "from_junction", "to_junction"),
    ("press_control", "from_junction", "to_junction"),
    ("heat_exchanger", "from_junction", "to_junction"),
    ("heat_consumer", "from_junction", "to_junction"),
    ("circ_pump_pressure", "return_junction", "flow_junction"),
    ("circ_pump_mass", "return_junction", "flow_junction"),
]
NODE_COMPONENTS = [("sink", +1.0), ("source", -1.0), ("mass_storage", +1.0), ("ext_grid", +1.0)]


def has(net, tbl):
    return tbl in net and len(net[tbl]) > 0


def pipe_valve_info(net):
    """for every junction-pipe valve: (valve idx, junction, pipe idx, side) where side is 'from'/'to'"""
    out = []
    if not has(net, "valve"):
        return out
    v = net.valve
    for vi in v.index[v.et.values == "pi"]:
        j, p = int(v.at[vi, "junction"]), int(v.at[vi, "element"])
        if p not in net.pipe.index:
            continue
        side = "from" if int(net.pipe.at[p, "from_junction"]) == j else "to"
        out.append((vi, j, p, side))
    return out


def node_balance(net):
    """per junction: sum of all reported flows leaving it (branch ends, sinks, -sources, storages, ext-grid
    value which is minus the feed-in).  Returns (imbalance Series-like dict, scale dict, supplied set)."""
    junc = net.junction.index.values
    pj = net.res_junction.p_bar
    supplied = set(int(j) for j in junc[~np.isnan(pj.values)])
    imb = {int(j): 0.0 for j in junc}
    scale = {int(j): 0.0 for j in junc}
    nan_at = {int(j): [] for j in junc}
    pv = pipe_valve_info(net)
    pipe_side_taken = {(p, side) for (_vi, _j, p, side) in pv}

    def add(j, val, what):
        j = int(j)
        if np.isnan(val):
            nan_at[j].append(what)
            return
        imb[j] += float(val)
        scale[j] += abs(float(val))

    for tbl, fc, tc in BRANCH_COMPONENTS:
        if not has(net, tbl):
            continue
        res = net["res_" + tbl]
        t = net[tbl]
        for idx in t.index:
            mf, mt = res.at[idx, "mdot_from_kg_per_s"], res.at[idx, "mdot_to_kg_per_s"]
            if tbl == "valve" and t.at[idx, "et"] == "pi":
                add(t.at[idx, fc], mf, ("valve", int(idx), "from"))
                continue                      # the other end is an internal node, not a junction
            if tbl == "pipe" and (int(idx), "from") in pipe_side_taken:
                pass                          # this pipe end hangs on a valve node, not on the junction
            else:
                add(t.at[idx, fc], mf, (tbl, int(idx), "from"))
            if tbl == "pipe" and (int(idx), "to") in pipe_side_taken:
                pass
            else:
                add(t.at[idx, tc], mt, (tbl, int(idx), "to"))
    for tbl, sign in NODE_COMPONENTS:
        if not has(net, tbl):
            continue
        res = net["res_" + tbl]
        t = net[tbl]
        for idx in t.index:
            add(t.at[idx, "junction"], sign * res.at[idx, "mdot_kg_per_s"], (tbl, int(idx)))
    return imb, scale, supplied, nan_at


def total_flows(net):
    """(feed_in, consumption, injection) from the reported node-element results"""
    feed = 0.0
    if has(net, "ext_grid"):
        feed -= float(np.nansum(net.res_ext_grid.mdot_kg_per_s.values))
    cons = 0.0
    for tbl in ("sink", "mass_storage"):
        if has(net, tbl):
            cons += float(np.nansum(net["res_" + tbl].mdot_kg_per_s.values))
    inj = 0.0
    if has(net, "source"):
        inj += float(np.nansum(net.res_source.mdot_kg_per_s.values))
    return feed, cons, inj
