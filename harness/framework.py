"""
The check pipeline shared by all properties (DESIGN.md sections 2, 6, 10):

  regenerate Gen/ from /repo  ->  lake build of the property's theorems + driver  ->  axiom audit
  ->  tie (translator self-check / correspondence)  ->  search on the real code  ->  verdict + evidence

Exit codes: 0 property held on everything explored; 1 violation (VIOLATION line printed);
2 infrastructure problem (never a verdict).
"""
import fcntl
import glob
import hashlib
import importlib
import json
import os
import re
import subprocess
import sys
import time
import traceback

from common import VERIF, REPO, LEAN_DIR, Timer

ALLOWED_AXIOMS = {"propext", "Classical.choice", "Quot.sound"}
FORBIDDEN = re.compile(r"\b(sorry|admit|native_decide|bv_decide|implemented_by|unsafe)\b|^axiom\s|maxHeartbeats 0")
TRUSTED_BASE = [
    "Lean 4.33.0 kernel (theorems re-checked by `lake build`; thorough tier also runs leanchecker)",
    "axioms: propext, Classical.choice, Quot.sound only (audited per theorem with #print axioms); "
    "no sorry/admit/native_decide/bv_decide/own axioms",
    "translator translator/kpy2lean.py + gen_all.py (python AST -> Lean), cross-checked bitwise against the "
    "python kernels on every run",
    "correspondence harness harness/*.py and the compiled model driver lean/Driver.lean",
    "modelled, not verified: IEEE-754 rounding (theorems are over the reals/rationals), scipy spsolve / csgraph, "
    "numba code generation, numpy, pandas, pandapower, networkx (exercised by the correspondence and search runs)",
]


class Ctx:
    def __init__(self, prop, tier, seed):
        self.prop, self.tier, self.seed = prop, tier, seed
        self.thorough = tier == "thorough"
        self.timer = Timer()
        self.notes = []

    def budget(self, quick, thorough):
        return thorough if self.thorough else quick


def sh(cmd, cwd=None, timeout=3600):
    p = subprocess.run(cmd, shell=True, cwd=cwd, capture_output=True, text=True, timeout=timeout)
    return p.returncode, p.stdout + p.stderr


def regenerate():
    rc, out = sh("python3 %s" % os.path.join(VERIF, "translator", "gen_all.py"))
    try:
        rep = json.loads(out.strip().split("\n")[-1])
    except Exception:
        rep = {"ok": False, "errors": [{"generator": "gen_all", "error": out[-2000:]}], "changed": [], "sha256": {}}
    return rep


def lean_build(targets):
    rc, out = sh("lake build %s" % " ".join(targets), cwd=LEAN_DIR, timeout=3000)
    errs = [l for l in out.split("\n") if l.startswith("error") or " error: " in l]
    return rc == 0, out, errs


def theorem_names(prop):
    path = os.path.join(LEAN_DIR, "PPV", "Props", "%s.lean" % prop)
    src = open(path).read()
    # strip block comments so that commented-out statements are not counted as obligations
    src_nc = re.sub(r"/-.*?-/", "", src, flags=re.S)
    names = re.findall(r"^theorem\s+([A-Za-z0-9_'.]+)", src_nc, flags=re.M)
    return names


def forbidden_scan():
    hits = []
    for path in glob.glob(os.path.join(LEAN_DIR, "**", "*.lean"), recursive=True):
        if "/.lake/" in path or "/.audit/" in path:
            continue
        src = open(path).read()
        src = re.sub(r"/-.*?-/", "", src, flags=re.S)
        for ln, line in enumerate(src.split("\n"), 1):
            code = line.split("--")[0]
            if FORBIDDEN.search(code):
                hits.append("%s:%d: %s" % (os.path.relpath(path, VERIF), ln, line.strip()))
    return hits


def audit(prop):
    """#print axioms for every theorem of Props/<prop>.lean; returns (obligations, discharged, detail)"""
    names = theorem_names(prop)
    os.makedirs(os.path.join(LEAN_DIR, ".audit"), exist_ok=True)
    path = os.path.join(LEAN_DIR, ".audit", "%s.lean" % prop)
    with open(path, "w") as f:
        f.write("import PPV.Props.%s\nopen PPV.Props.%s\n" % (prop, prop))
        for n in names:
            f.write("#print axioms %s\n" % n)
    rc, out = sh("lake env lean %s" % path, cwd=LEAN_DIR, timeout=1200)
    detail = {}
    for m in re.finditer(r"'([^']+)' depends on axioms: \[([^\]]*)\]", out.replace("\n", " ")):
        detail[m.group(1).split(".")[-1]] = [a.strip() for a in m.group(2).split(",") if a.strip()]
    for m in re.finditer(r"'([^']+)' does not depend on any axioms", out):
        detail[m.group(1).split(".")[-1]] = []
    discharged = []
    bad = []
    for n in names:
        ax = detail.get(n.split(".")[-1])
        if ax is None:
            bad.append("%s: not accepted by Lean (%s)" % (n, "missing from audit output"))
        elif not set(ax) <= ALLOWED_AXIOMS:
            bad.append("%s: uses axioms %s" % (n, sorted(set(ax) - ALLOWED_AXIOMS)))
        else:
            discharged.append(n)
    return names, discharged, bad, out if rc != 0 else ""


def load_known_findings():
    path = os.path.join(VERIF, "KNOWN_FINDINGS.jsonl")
    known, fixed = [], []
    if os.path.exists(path):
        for line in open(path):
            line = line.strip()
            if not line or line.startswith("#"):
                continue
            if line.startswith("fixed:"):
                fixed.append(line)
                continue
            known.append(json.loads(line))
    return known, fixed


def finding_matches(kf, prop, failure):
    if kf.get("property") != prop:
        return False
    fp = failure.get("fingerprint", "")
    return fp == kf.get("fingerprint") or (kf.get("fingerprint_prefix") and fp.startswith(kf["fingerprint_prefix"]))


def write_replay(prop, payload):
    os.makedirs(os.path.join(VERIF, "replays"), exist_ok=True)
    blob = json.dumps(payload, sort_keys=True, default=str)
    h = hashlib.sha256(blob.encode()).hexdigest()[:12]
    path = os.path.join(VERIF, "replays", "%s-%s.json" % (prop, h))
    with open(path, "w") as f:
        json.dump(payload, f, indent=1, sort_keys=True, default=str)
    return path


def write_evidence(ctx, ev):
    os.makedirs(os.path.join(VERIF, "evidence"), exist_ok=True)
    path = os.path.join(VERIF, "evidence", "%s.json" % ctx.prop)
    with open(path, "w") as f:
        json.dump(ev, f, indent=1, sort_keys=True, default=str)
    return path


def run_check(prop, tier, seed, replay_path=None):
    import logging
    import warnings
    logging.disable(logging.ERROR)
    warnings.simplefilter("ignore")
    ctx = Ctx(prop, tier, seed)
    mod = importlib.import_module("props.%s" % prop.lower())
    lock = open(os.path.join(VERIF, ".check.lock"), "w")
    fcntl.flock(lock, fcntl.LOCK_EX)
    known, fixed = load_known_findings()

    if replay_path:
        payload = json.load(open(replay_path))
        if payload.get("kind") == "proof-or-tie":
            print("replay names a broken proof obligation / tie, re-running the full check")
        else:
            fail = mod.replay(ctx, payload)
            if fail:
                print("VIOLATION property=%s replay=%s" % (prop, replay_path))
                return 1
            print("replay no longer fails")
            return 0

    # ---- T (part 1): regenerate the generated model files from the current source ----------------
    gen = regenerate()
    gens_needed = set(getattr(mod, "GENERATORS", []))
    gen_errors = [e for e in gen.get("errors", []) if (not gens_needed) or e["generator"] in gens_needed
                  or e["generator"] == "gen_all"]
    if not gens_needed:
        gen_errors = [e for e in gen_errors if e["generator"] == "gen_all"]
    T_problems = ["translator: %s: %s" % (e["generator"], e["error"]) for e in gen_errors]

    # ---- P: build theorems + driver, audit axioms -------------------------------------------------
    P_problems = []
    targets = list(getattr(mod, "LEAN_TARGETS", ["PPV.Props.%s" % prop]))
    ok_drv, out_drv, _ = lean_build(["driver"])
    if not ok_drv:
        T_problems.append("model driver does not build: " + out_drv[-1500:])
    ok_p, out_p, _ = lean_build(targets)
    obligations, discharged = [], []
    if not ok_p:
        P_problems.append("lake build %s failed: %s" % (" ".join(targets), out_p[-3000:]))
        try:
            obligations = theorem_names(prop)
        except Exception:
            obligations = []
    else:
        obligations, discharged, bad, aout = audit(prop)
        P_problems.extend(bad)
        if aout:
            P_problems.append("audit failed: " + aout[-1500:])
    hits = forbidden_scan()
    if hits:
        P_problems.append("forbidden tokens: " + "; ".join(hits[:5]))
    if ctx.thorough and ok_p and getattr(mod, "LEANCHECKER", True):
        rc, out = sh("lake env leanchecker %s" % " ".join(targets), cwd=LEAN_DIR, timeout=3000)
        if rc != 0:
            P_problems.append("leanchecker: " + out[-1500:])
        ctx.notes.append("leanchecker rc=%d" % rc)

    # ---- T (part 2): correspondence / self-check ---------------------------------------------------
    tie = {"cases": 0, "disagreements": [], "stats": {}}
    if ok_drv or not getattr(mod, "TIE_NEEDS_DRIVER", True):
        try:
            tie = mod.tie(ctx)
        except Exception as e:
            tie = {"cases": 0, "disagreements": [{"error": "tie crashed: %r" % (e,), "trace": traceback.format_exc()[-1500:]}],
                   "stats": {}}
    for d in tie["disagreements"][:10]:
        T_problems.append("correspondence: " + json.dumps(d, default=str)[:600])

    # ---- S: search on the implementation -----------------------------------------------------------
    broken = bool(P_problems or T_problems)
    try:
        search = mod.search(ctx, escalate=broken)
    except Exception as e:
        print("infrastructure error in search: %r\n%s" % (e, traceback.format_exc()))
        return 2
    sc = search.get("status_counts", {})
    n_err = sc.get("oracle-error", 0) + sc.get("gen-error", 0)
    if n_err and n_err * 10 > max(1, search.get("evaluations", 0)):
        print("infrastructure error: %d of %d search cases crashed in the harness: %s" % (
            n_err, search.get("evaluations", 0), json.dumps(search.get("errors", [])[:1])[:1500]))
        return 2
    failures = search.get("failures", [])
    new_failures, known_hits = [], []
    for fl in failures:
        k = next((kf for kf in known if finding_matches(kf, prop, fl)), None)
        if k is not None:
            known_hits.append((k, fl))
        else:
            new_failures.append(fl)
    printed = set()
    for k, fl in known_hits:
        key = k.get("fingerprint") or k.get("fingerprint_prefix")
        if key not in printed:
            printed.add(key)
            print("KNOWN-FINDING: property=%s %s" % (prop, k.get("description", key)))

    rc = 0
    violation_lines = []
    if new_failures:
        seen = set()
        for fl in new_failures:
            if fl["fingerprint"] in seen:
                continue
            seen.add(fl["fingerprint"])
            payload = dict(fl.get("replay", {}), property=prop, fingerprint=fl["fingerprint"], clause=fl.get("clause"),
                           detail=fl.get("detail"), seed=seed, tier=tier, kind="failing-input",
                           how_to_run="./check %s --replay <this file>" % prop)
            path = write_replay(prop, payload)
            violation_lines.append("VIOLATION property=%s replay=%s" % (prop, os.path.relpath(path, VERIF)))
            if len(seen) >= 5:
                break
        rc = 1
    elif broken:
        payload = {"property": prop, "kind": "proof-or-tie", "seed": seed, "tier": tier,
                   "proof_obligations_failing": P_problems, "tie_failing": T_problems,
                   "search": {k: search.get(k) for k in ("evaluations", "distinct_nontrivial", "rule")},
                   "how_to_run": "./check %s --tier %s" % (prop, tier)}
        path = write_replay(prop, payload)
        violation_lines.append("VIOLATION property=%s replay=%s no-failing-input-found" % (prop, os.path.relpath(path, VERIF)))
        rc = 1

    ev = {
        "property_id": prop, "tier": tier, "seed": seed, "level": "proof",
        "coverage": {
            "obligations": max(len(obligations), 1), "discharged": len(discharged) if obligations else 0,
            "checker_cmd": "cd lean && lake build %s && lake env lean .audit/%s.lean  (#print axioms per theorem)" % (
                " ".join(targets), prop),
            "trusted_base": TRUSTED_BASE + list(getattr(mod, "TRUSTED_EXTRA", [])),
            "theorems": obligations, "theorems_discharged": discharged,
            "evaluations": int(search.get("evaluations", 0)) + int(tie.get("cases", 0)),
            "distinct_nontrivial": int(search.get("distinct_nontrivial", 0)),
            "rule": search.get("rule", ""), "samples": (search.get("samples") or [])[:5] or [tie.get("stats")],
            "correspondence": {"cases": tie.get("cases", 0), "disagreements": len(tie["disagreements"]),
                               "stats": tie.get("stats", {})},
            "search": {k: v for k, v in search.items() if k not in ("failures", "samples")},
            "generated_files": gen.get("sha256", {}), "generated_changed": gen.get("changed", []),
            "proof_problems": P_problems, "tie_problems": T_problems,
            "known_findings_hit": sorted(printed), "notes": ctx.notes,
        },
        "assumptions": list(getattr(mod, "ASSUMPTIONS", [])),
        "wall_s": ctx.timer.s(), "violations": len(violation_lines),
    }
    write_evidence(ctx, ev)
    for l in violation_lines:
        print(l)
    print("check %s tier=%s seed=%d: obligations %d/%d, tie cases %d (%d disagreements), search %d evaluations, "
          "%d failures (%d known), %.1fs -> exit %d" % (
              prop, tier, seed, len(discharged), len(obligations), tie.get("cases", 0), len(tie["disagreements"]),
              search.get("evaluations", 0), len(failures), len(known_hits), ctx.timer.s(), rc))
    return rc
