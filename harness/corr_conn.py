"""
Correspondence between `Model/Connectivity.lean` and the real `check_connectivity` (csgraph BFS included):
random graphs x all / sampled flag patterns; compares the nodes_connected and branches_connected masks, and
`np.cumsum(connected) - 1` with the model's renumbering.
"""
import itertools

import numpy as np

from common import LeanDriver


def net_stub():
    return {"_options": {"quit_on_inconsistency_connectivity": False},
            "_lookups": {"node_table": {"n2t": {0: "junction"}, "t2n": {"junction": 0}},
                         "branch_table": {"n2t": {0: "pipe"}, "t2n": {"pipe": 0}}}}


def make_case(rng, n, b, flags=None):
    from pandapipes import idx_branch as ib, idx_node as inode
    npit = np.zeros((n, inode.node_cols))
    bp = np.zeros((b, ib.branch_cols))
    bp[:, ib.FROM_NODE] = rng.integers(0, n, b)
    bp[:, ib.TO_NODE] = rng.integers(0, n, b)
    bp[:, ib.DIRECTED] = rng.random(b) < 0.25
    bp[:, ib.FLOW_RETURN_CONNECT] = rng.random(b) < 0.12
    sl = rng.random(n) < 0.25
    if not sl.any():
        sl[int(rng.integers(0, n))] = True
    npit[:, inode.NODE_TYPE] = np.where(sl, inode.P, inode.L)
    if flags is None:
        bp[:, ib.ACTIVE] = rng.random(b) < 0.75
        npit[:, inode.ACTIVE] = rng.random(n) < 0.85
    else:
        bits_b, bits_n = flags
        bp[:, ib.ACTIVE] = bits_b
        npit[:, inode.ACTIVE] = bits_n
    return npit, bp


def line_of(npit, bp):
    from pandapipes import idx_branch as ib, idx_node as inode
    f = lambda a: " ".join(str(int(x)) for x in a)
    return "conn %d %d :: %s :: %s :: %s :: %s :: %s :: %s :: %s" % (
        len(npit), len(bp), f(bp[:, ib.FROM_NODE]), f(bp[:, ib.TO_NODE]), f(bp[:, ib.ACTIVE]), f(bp[:, ib.DIRECTED]),
        f(bp[:, ib.FLOW_RETURN_CONNECT]), f(npit[:, inode.ACTIVE]), f(npit[:, inode.NODE_TYPE] == inode.P))


def real(npit, bp):
    from pandapipes import idx_branch as ib, idx_node as inode
    from pandapipes.pf.pipeflow_setup import check_connectivity
    nc, bc = check_connectivity(net_stub(), bp.copy(), npit.copy(), bp[:, ib.ACTIVE].astype(bool),
                                npit[:, inode.ACTIVE].astype(bool), mode="hydraulics")
    ren = np.cumsum(nc) - 1
    return ("".join("1" if x else "0" for x in nc) + " " + "".join("1" if x else "0" for x in bc) + " " +
            ",".join(str(int(r)) if c else "-" for r, c in zip(ren, nc)))


def run(seed, n_random, exhaustive_k=10):
    rng = np.random.default_rng([seed, 404])
    cases = []
    # exhaustive flag patterns on three fixed random topologies with k = n + b flags
    for topo in range(3):
        n, b = (4, 6) if exhaustive_k >= 10 else (3, 4)
        base_n, base_b = make_case(rng, n, b)
        for bits in itertools.product([0, 1], repeat=n + b):
            from pandapipes import idx_branch as ib, idx_node as inode
            npit, bp = base_n.copy(), base_b.copy()
            bp[:, ib.ACTIVE] = bits[:b]
            npit[:, inode.ACTIVE] = bits[b:]
            cases.append((npit, bp))
    n_exh = len(cases)
    for _ in range(n_random):
        n = int(rng.integers(1, 14))
        b = int(rng.integers(0, 22))
        cases.append(make_case(rng, n, b))
    lines = [line_of(*c) for c in cases]
    out = LeanDriver().run(lines)
    bad = []
    raised = 0
    for (npit, bp), line, o in zip(cases, lines, out):
        try:
            r = real(npit, bp)
        except ValueError:
            raised += 1       # the code's own internal consistency error (directed/undirected mismatch)
            continue
        if r != o:
            bad.append({"case": line, "real": r, "model": o})
            if len(bad) > 10:
                break
    return bad, {"cases": len(cases), "exhaustive_patterns": n_exh, "random": n_random, "real_raised_valueerror": raised}


if __name__ == "__main__":
    import json, sys
    b, s = run(int(sys.argv[1]) if len(sys.argv) > 1 else 0, int(sys.argv[2]) if len(sys.argv) > 2 else 500)
    print(json.dumps(s)); print(json.dumps(b[:3], indent=1)[:2000])
