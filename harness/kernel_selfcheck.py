"""
Translator self-check (tie T for generated kernels): every generated Lean definition, instantiated at
Float and run by the compiled driver, is compared with the Python function it was translated from on
random inputs plus an edge corpus.  numpy twins are compared at `ULP_NP` ulp, numba twins at `ULP_NB`.

Returns a list of disagreement dicts (empty = tie holds).
"""
import importlib
import inspect

import numpy as np

from common import LeanDriver, f2hex, hex2f, ulp_diff, gen_meta

# measured on the clean tree: numpy's SIMD exp/log/pow and numba's fused/re-associated code differ
# from libm by at most 2 ulp on these kernels; a sign / constant / operand slip gives >= 2^40 ulp.
ULP_NP = 16
ULP_NB = 4
# outputs that sit behind a cancellation (difference of nearly equal terms that went through
# exp/pow, which numpy's SIMD routines round differently from libm): compared relative to the
# magnitude of the cancelling terms instead of the result.
#   ("rel", r)            |py - model| <= r * max(|py|, |model|)
#   ("abs", a, [names])   |py - model| <= a * (1 + sum |named input|)
SPECIAL_TOL = {
    ("mediumPressureNp", "p_m"): ("rel", 1e-9), ("mediumPressureNp", "der_p_m"): ("rel", 1e-8),
    ("mediumPressureNp", "der_p_m1"): ("rel", 1e-8),
    ("mediumPressureNumba", "p_m"): ("rel", 1e-9), ("mediumPressureNumba", "der_p_m"): ("rel", 1e-8),
    ("mediumPressureNumba", "der_p_m1"): ("rel", 1e-8),
    ("gasPressuresNumba", "p_abs_mean"): ("rel", 1e-9), ("gasResultsNp", "p_abs_mean"): ("rel", 1e-9),
    ("gasResultsNumba", "p_abs_mean"): ("rel", 1e-9), ("gasResultsNp", "normfactor_mean"): ("rel", 1e-9),
    ("gasResultsNumba", "normfactor_mean"): ("rel", 1e-9), ("gasResultsNp", "v_gas_mean"): ("rel", 1e-9),
    ("gasResultsNumba", "v_gas_mean"): ("rel", 1e-9),
    ("thermalBranchNp", "fb"): ("abs", 1e-12, ["t_init_i", "t_init_i1"]),
    ("thermalBranchNumba", "fb"): ("abs", 1e-12, ["t_init_i", "t_init_i1"]),
}

EDGE_M = [0.0, -0.0, 1e-11, -1e-11, 1e-10, -1e-10, 1.0000000001e-10, -1.0000000001e-10, 2e-10, 1e-9, -1e-9,
          1e-8, -1e-8, 1.0000001e-8, 5e-8, float("nan")]


def _module(pyfile):
    mod = pyfile.replace("src/", "").replace(".py", "").replace("/", ".")
    return importlib.import_module(mod)


def make_inputs(rng, n, meta):
    """random pits and named arrays; branch i goes from node 2i to node 2i+1"""
    from pandapipes import idx_branch as ib, idx_node as inode
    bp = np.zeros((n, ib.branch_cols))
    npit = np.zeros((2 * n, inode.node_cols))
    m = rng.normal(0, 2.0, n)
    k = min(len(EDGE_M) * 4, n // 4)
    m[:k] = rng.choice(EDGE_M, k)
    bp[:, ib.MDOTINIT] = m
    bp[:, ib.LENGTH] = np.where(rng.random(n) < 0.1, 0.0, rng.uniform(0.1, 3000, n))
    bp[:, ib.LAMBDA] = rng.uniform(0.005, 0.09, n)
    bp[:, ib.D] = rng.uniform(0.02, 1.2, n)
    bp[:, ib.DO] = bp[:, ib.D] * rng.uniform(1.0, 1.3, n)
    bp[:, ib.AREA] = bp[:, ib.D] ** 2 * np.pi / 4
    bp[:, ib.K] = rng.uniform(1e-6, 2e-3, n)
    bp[:, ib.LOSS_COEFFICIENT] = rng.choice([0.0, 0.5, 1.5, 30.0], n)
    bp[:, ib.PL] = rng.choice([0.0, 0.0, 0.7, -0.3], n)
    bp[:, ib.TL] = rng.choice([0.0, 0.0, 5.0, -3.0], n)
    bp[:, ib.ALPHA] = rng.choice([0.0, 0.5, 5.0, 20.0], n) * rng.uniform(0.5, 1.5, n)
    bp[:, ib.QEXT] = rng.choice([0.0, 0.0, 1e4, -2e3], n)
    bp[:, ib.TEXT] = rng.uniform(263, 303, n)
    bp[:, ib.TOUTINIT] = rng.uniform(275, 380, n)
    bp[:, ib.FROM_NODE] = np.arange(n) * 2
    bp[:, ib.TO_NODE] = np.arange(n) * 2 + 1
    bp[:, ib.RE] = rng.uniform(0, 1e6, n)
    npit[:, inode.TINIT] = rng.uniform(275, 380, 2 * n)
    npit[:, inode.HEIGHT] = rng.choice([0.0, 0.0, 10.0, -35.5, 120.0], 2 * n)
    npit[:, inode.PINIT] = rng.uniform(0.3, 80, 2 * n)
    pf_, pt_ = npit[0::2, inode.PINIT], npit[1::2, inode.PINIT]
    close = np.abs(pf_ - pt_) < 2e-3 * np.maximum(pf_, pt_)
    eq = (rng.random(n) < 0.08) | close
    npit[1::2, inode.PINIT] = np.where(eq, pf_, pt_)
    npit[:, inode.PAMB] = rng.choice([1.01325, 1.0, 0.95], 2 * n)
    named = {
        "der_lambda": rng.normal(0, 1e-3, n), "lambda_": rng.uniform(0.005, 0.09, n),
        "height_difference": npit[0::2, inode.HEIGHT] - npit[1::2, inode.HEIGHT],
        "p_init_i_abs": npit[0::2, inode.PINIT] + npit[0::2, inode.PAMB],
        "p_init_i1_abs": npit[1::2, inode.PINIT] + npit[1::2, inode.PAMB],
        "rho": rng.uniform(0.5, 1000, n), "rho_n": rng.uniform(0.08, 1.3, n),
        "comp_fact": rng.uniform(0.8, 1.1, n), "der_comp": rng.normal(0, 1e-3, n), "der_comp1": rng.normal(0, 1e-3, n),
        "m": m.copy(), "d": bp[:, ib.D].copy(), "k": bp[:, ib.K].copy(), "eta": rng.uniform(1e-6, 2e-3, n),
        "area": bp[:, ib.AREA].copy(),
        "t_init_i": npit[0::2, inode.TINIT].copy(), "t_init_i1": bp[:, ib.TOUTINIT].copy(),
        "t_init_nt": npit[1::2, inode.TINIT].copy(), "t_init_n": npit[:, inode.TINIT].copy(),
        "cp_n": rng.uniform(900, 4300, n), "cp_b": rng.uniform(900, 4300, n),
        "amb": float(rng.uniform(270, 300)), "dt": None, "transient": False,
        "from_nodes": (np.arange(n) * 2).astype(np.int32), "to_nodes": (np.arange(n) * 2 + 1).astype(np.int32),
        "branch_pit": bp, "node_pit": npit,
        "node_pit_old": np.zeros((2 * n, 1)), "branch_pit_old": np.zeros((n, 1)),
        "node_pit_old_lookup": np.zeros(inode.node_cols, dtype=np.int32),
        "branch_pit_old_lookup": np.zeros(ib.branch_cols, dtype=np.int32),
        "v_mps": rng.normal(0, 3, n), "p_from": npit[0::2, inode.PINIT].copy(), "p_to": npit[1::2, inode.PINIT].copy(),
        "comp_from": rng.uniform(0.8, 1.1, n), "comp_to": rng.uniform(0.8, 1.1, n), "comp_mean": rng.uniform(0.8, 1.1, n),
        "p_abs_from": npit[0::2, inode.PINIT] + npit[0::2, inode.PAMB],
        "p_abs_to": npit[1::2, inode.PINIT] + npit[1::2, inode.PAMB],
    }
    named["p_abs_mean"] = (named["p_abs_from"] + named["p_abs_to"]) / 2
    # reverse-flow flags for the gas post-processing twins (own generator: the draws above stay what they were)
    bp[:, ib.FROM_NODE_T_SWITCHED] = (np.random.default_rng(977 + n).random(n) < 0.35).astype(float)
    named["net"] = None
    named["fluid"] = type("_F", (_FakeFluid,), {"is_gas": bool((meta.get("fold") or {}).get("is_gas", True))})
    return bp, npit, named


Z_COEF = (0.97, -2.5e-3, 1.5e-4)     # stand-in compressibility  Z(p, T) = c0 + c1 p + c2 T
RHO_COEF = (1100.0, 0.0, -0.4)       # stand-in density          rho(T) = c0 + c2 T
FN_COEF = {"Z": Z_COEF, "Rho": RHO_COEF}


class _FakeProp:
    allow_2d = True


class _FakeFluid:
    """stand-in for the net's fluid in the gas post-processing functions: an affine compressibility in (p, T)"""
    is_gas = True
    all_properties = {"compressibility": _FakeProp()}

    @staticmethod
    def get_compressibility(p, t=None):
        return Z_COEF[0] + Z_COEF[1] * p + Z_COEF[2] * (t if t is not None else 0.0)

    @staticmethod
    def get_density(t):
        return RHO_COEF[0] + RHO_COEF[2] * t


def call_python(meta, bp, npit, named):
    mod = _module(meta["pyfile"])
    fn = getattr(mod, meta["pyfunc"])
    pyfn = getattr(fn, "py_func", fn)
    sig = inspect.signature(pyfn)
    args = []
    for p in sig.parameters:
        if p not in named:
            raise KeyError("no generated input for python parameter %s of %s" % (p, meta["pyfunc"]))
        v = named[p]
        args.append(v.copy() if isinstance(v, np.ndarray) else v)
    saved = getattr(mod, "get_fluid", None) if "net" in sig.parameters else None
    if saved is not None:
        mod.get_fluid = lambda net: _FakeFluid
    try:
        res = fn(*args)
    finally:
        if saved is not None:
            mod.get_fluid = saved
    if not isinstance(res, tuple):
        res = (res,)
    # map outputs by the names in the python return statement
    import ast
    src = inspect.getsource(pyfn)
    tree = ast.parse(__import__("textwrap").dedent(src))
    ret = [n for n in ast.walk(tree) if isinstance(n, ast.Return)][-1].value
    names = [e.id if isinstance(e, ast.Name) else "ret" for e in (ret.elts if isinstance(ret, ast.Tuple) else [ret])]
    return dict(zip(names, res))


def check_kernel(driver, rng, meta, n):
    from pandapipes import idx_branch as ib, idx_node as inode
    bp, npit, named = make_inputs(rng, n, meta)
    py = call_python(meta, bp, npit, named)
    node_domain = meta["domain"] == "node"
    count = 2 * n if node_domain else n
    if node_domain:
        from pandapipes.pf.derivative_toolbox import _branches_not_zero_flow
        bf = _branches_not_zero_flow(bp)
        named = dict(named, nodes_flow=np.repeat(bf, 2).astype(float))
    lines = []
    for i in range(count):
        vals = []
        for r in meta["rows"]:
            if r == "b":
                vals.extend(bp[i])
            elif r == "n":
                vals.extend(npit[i])
            elif r == "nf":
                vals.extend(npit[2 * i])
            elif r == "nt":
                vals.extend(npit[2 * i + 1])
        for nm, ty in meta["extra"]:
            key = nm if nm in named else nm + "_"
            v = named[key]
            vals.append(float(v[i]) if isinstance(v, np.ndarray) else float(v))
        for fnm in meta.get("fn_params", []):
            vals.extend(FN_COEF[fnm])
        lines.append("kernel %s %s" % (meta["lean_name"], " ".join(f2hex(v) for v in vals)))
    out = driver.run(lines)
    tol = ULP_NB if "numba" in meta["pyfile"] or meta["pyfunc"].endswith("numba") else ULP_NP
    bad = []
    worst = 0
    for i, line in enumerate(out):
        if line.startswith("bad"):
            return [{"kernel": meta["lean_name"], "error": line}], 0
        got = [hex2f(h) for h in line.split()]
        for (nm, ty), g in zip(meta["outputs"], got):
            key = nm if nm in py else nm + "_"
            ref = py[key]
            ref = ref[i] if isinstance(ref, np.ndarray) and ref.ndim else ref
            ref = float(ref)
            d = ulp_diff(ref, g)
            if ref == 0.0 and g == 0.0:
                d = 0
            sp = SPECIAL_TOL.get((meta["lean_name"], nm))
            if sp is not None and d > tol and d < (1 << 61):
                if sp[0] == "rel" and abs(ref - g) <= sp[1] * max(abs(ref), abs(g)):
                    d = 0
                elif sp[0] == "abs":
                    sc = 1.0 + sum(abs(float(named[k][i])) for k in sp[2])
                    if abs(ref - g) <= sp[1] * sc:
                        d = 0
            worst = max(worst, d if d < (1 << 61) else 0)
            if d > tol:
                if len(bad) < 5:
                    bad.append({"kernel": meta["lean_name"], "python": "%s:%s" % (meta["pyfile"], meta["pyfunc"]),
                                "output": nm, "row": i, "python_value": ref, "model_value": g, "ulp": d if d < (1 << 61) else "nan-mismatch",
                                "inputs_hex": lines[i]})
    return bad, worst


def run(seed, n_per_kernel):
    """returns (disagreements, stats)"""
    rng = np.random.default_rng(seed)
    driver = LeanDriver()
    metas = list(gen_meta()["kernels"])
    np_meta = [m for m in metas if m["lean_name"] == "gasResultsNp"]
    if np_meta:
        # hand-written glue `Model/GasResults.gasResultsNumba` against the real numba wrapper (same layout as the numpy twin)
        metas.append(dict(np_meta[0], lean_name="gasResultsNumba", pyfunc="get_branch_results_gas_numba"))
    bad_all, stats = [], {}
    for meta in metas:
        try:
            bad, worst = check_kernel(driver, rng, meta, n_per_kernel)
        except Exception as e:  # signature drift etc. -> broken tie
            bad, worst = [{"kernel": meta["lean_name"], "error": "harness: %r" % (e,)}], -1
        stats[meta["lean_name"]] = {"inputs": n_per_kernel, "max_ulp": worst, "disagreements": len(bad)}
        bad_all.extend(bad)
    return bad_all, stats


if __name__ == "__main__":
    import json
    import sys
    b, s = run(int(sys.argv[1]) if len(sys.argv) > 1 else 0, int(sys.argv[2]) if len(sys.argv) > 2 else 2000)
    print(json.dumps(s, indent=1))
    print(json.dumps(b[:10], indent=1))


# ---- component adaption methods (Gen/Components.lean) ---------------------------------------------------
def _cp_of(pit):
    """stand-in for get_branch_cp / density / viscosity: a deterministic function of the row, so that row subsets
    (`pit[mask]`) get the values of their own rows"""
    from pandapipes import idx_branch as ib
    return 3900.0 + 0.5 * pit[:, ib.TOUTINIT] + 7.0 * pit[:, ib.ELEMENT_IDX]


def check_component(driver, rng, meta, n):
    """call the real class method on random pits (module-level helpers that evaluate fluid properties or fetch the
    component array are replaced for the duration of the call) and compare every written column row by row"""
    from pandapipes import idx_branch as ib, idx_node as inode
    mod = _module(meta["pyfile"])
    cls = getattr(mod, meta["class"])
    bp, npit, named = make_inputs(rng, n, {})
    bp[:, ib.ELEMENT_IDX] = np.arange(n)
    bp[:, ib.FROM_NODE_T_SWITCHED] = (rng.random(n) < 0.3).astype(float)
    bp[:, ib.BRANCH_TYPE] = rng.choice([0.0, 1.0, 2.0], n)
    bp[:, ib.JAC_DERIV_DP] = rng.normal(0, 1, n)
    bp[:, ib.JAC_DERIV_DP1] = rng.normal(0, 1, n)
    bp[:, ib.JAC_DERIV_DM] = rng.normal(0, 1, n)
    bp[:, ib.LOAD_VEC_BRANCHES] = rng.normal(0, 1, n)
    bp[:, ib.JAC_DERIV_DT] = rng.normal(0, 1, n)
    bp[:, ib.JAC_DERIV_DTOUT] = rng.normal(0, 1, n)
    bp[:, ib.LOAD_VEC_BRANCHES_T] = rng.normal(0, 1, n)
    # make equal in / out temperatures and zero duties occur (they select branches of the QE_TR logic)
    eq = rng.random(n) < 0.15
    bp[eq, ib.TOUTINIT] = np.where(bp[eq, ib.FROM_NODE_T_SWITCHED] > 0, npit[1::2, inode.TINIT][eq], npit[0::2, inode.TINIT][eq])
    consts = meta["class_consts"]
    ncols = max([v for k, v in consts.items() if k == "internal_cols"] + [8])
    comp = np.zeros((n, ncols))
    for k, v in consts.items():
        if k.isupper() and k != "MODE" and v < ncols and ("c_" + k) in [e[0] for e in meta["extra"]]:
            comp[:, v] = rng.uniform(0.5, 40.0, n)
    if "MODE" in consts:
        comp[:, consts["MODE"]] = rng.integers(0, 7, n)
    if "CONTROL_ACTIVE" in consts:
        comp[:, consts["CONTROL_ACTIVE"]] = rng.integers(0, 2, n)
    if "PRESSURE_RATIO" in consts:
        comp[:, consts["PRESSURE_RATIO"]] = rng.uniform(1.0, 2.0, n)
    ref_bp, ref_np = bp.copy(), npit.copy()
    saved = {}
    patches = {"get_component_array": lambda net, name, *a, **k: comp, "get_fluid": lambda net: None,
               "get_branch_cp": lambda fluid, node_pit, pit: _cp_of(pit),
               "get_branch_real_density": lambda fluid, node_pit, pit: _cp_of(pit),
               "get_branch_real_eta": lambda fluid, node_pit, pit: _cp_of(pit)}
    for k, f in patches.items():
        if hasattr(mod, k):
            saved[k] = getattr(mod, k)
            setattr(mod, k, f)
    try:
        getattr(cls, meta["pyfunc"])(None, ref_bp, ref_np, None, None, {cls.table_name(): (0, n)}, {})
    finally:
        for k, f in saved.items():
            setattr(mod, k, f)
    cpv = _cp_of(bp)
    lines = []
    for i in range(n):
        vals = []
        for r in meta["rows"]:
            vals.extend(bp[i] if r == "b" else (npit[2 * i] if r == "nf" else npit[2 * i + 1]))
        for nm, ty in meta["extra"]:
            if nm.startswith("c_"):
                vals.append(float(comp[i, consts[nm[2:]]]))
            else:
                vals.append(float(cpv[i]))
        lines.append("kernel %s %s" % (meta["lean_name"], " ".join(f2hex(v) for v in vals)))
    out = driver.run(lines)
    bad, worst = [], 0
    for i, line in enumerate(out):
        if line.startswith("bad"):
            return [{"kernel": meta["lean_name"], "error": line}], 0
        got = [hex2f(h) for h in line.split()]
        for (nm, ty), g in zip(meta["outputs"], got):
            ref = float(ref_bp[i, getattr(ib, nm)])
            d = 0 if (ref == g or (ref != ref and g != g)) else ulp_diff(ref, g)
            worst = max(worst, d if d < (1 << 61) else 0)
            if d > 0 and len(bad) < 5:
                bad.append({"kernel": meta["lean_name"], "python": "%s:%s.%s" % (meta["pyfile"], meta["class"], meta["pyfunc"]),
                            "output": nm, "row": i, "python_value": ref, "model_value": g,
                            "ulp": d if d < (1 << 61) else "nan-mismatch", "inputs_hex": lines[i][:400]})
    # columns the model does not list must be untouched by the real method
    listed = {getattr(ib, nm) for nm, _ in meta["outputs"]}
    other = [c for c in range(bp.shape[1]) if c not in listed]
    same = (ref_bp[:, other] == bp[:, other]) | (np.isnan(ref_bp[:, other]) & np.isnan(bp[:, other]))
    if not same.all() or not np.array_equal(ref_np, npit, equal_nan=True):
        bad.append({"kernel": meta["lean_name"], "error": "the real method writes a column the generated model does not list",
                    "columns": [int(other[c]) for c in np.flatnonzero(~same.all(axis=0))][:5]})
    return bad, worst


def run_components(seed, n_per):
    rng = np.random.default_rng([seed, 77])
    driver = LeanDriver()
    metas = gen_meta().get("components") or []
    bad_all, stats = [], {}
    if not metas:
        return [{"kernel": "components", "error": "no generated component models (generator failed?)"}], {}
    for meta in metas:
        try:
            bad, worst = check_component(driver, rng, meta, n_per)
        except Exception as e:
            bad, worst = [{"kernel": meta["lean_name"], "error": "harness: %r" % (e,)}], -1
        stats[meta["lean_name"]] = {"inputs": n_per, "max_ulp": worst, "disagreements": len(bad)}
        bad_all.extend(bad)
    return bad_all, stats
