"""
Generic exploration loop for the search (S) part of a check: generate cases from one PRNG stream,
evaluate an oracle on the real implementation, collect failures with fingerprints.

Workers are forked *after* pandapipes is imported and its numba kernels are compiled in the parent, so
that the 8 s start-up cost is paid once.
"""
import logging
import multiprocessing as mp
import os
import time
import traceback
import warnings

import numpy as np

_WARM = False


def warm_up():
    """import pandapipes and trigger numba compilation once (inherited by forked workers)"""
    global _WARM
    if _WARM:
        return
    logging.disable(logging.WARNING)
    warnings.simplefilter("ignore")
    import netgen
    rng = np.random.default_rng(12345)
    for gen, kw in ((netgen.gen_hydraulic, {"fluid": "water"}), (netgen.gen_hydraulic, {"fluid": "lgas"}),
                    (netgen.gen_heat_tree, {}), (netgen.gen_heat_loop, {})):
        for _ in range(2):
            s = gen(rng, **kw)
            s["options"]["use_numba"] = True
            netgen.try_run(s)
    _WARM = True


_TASK = {}


def _work(args):
    idx, seed = args
    gen, oracle = _TASK["gen"], _TASK["oracle"]
    rng = np.random.default_rng([seed, idx])
    t0 = time.time()
    try:
        case = gen(rng)
    except Exception as e:
        return {"idx": idx, "status": "gen-error", "error": repr(e), "trace": traceback.format_exc()[-800:]}
    try:
        with warnings.catch_warnings():
            warnings.simplefilter("ignore")
            res = oracle(case)
    except Exception as e:
        return {"idx": idx, "status": "oracle-error", "error": repr(e), "trace": traceback.format_exc()[-1500:],
                "case": case}
    res = res or {}
    res.setdefault("status", "ok")
    res["idx"] = idx
    res["wall"] = time.time() - t0
    if res.get("failures"):
        res["case"] = case
    return res


def explore(seed, n, gen, oracle, workers=None, time_limit=None, describe=None, hash_fn=None, nontrivial_fn=None):
    """
    gen(rng) -> case (JSON-able); oracle(case) -> {"status": "ok"|"skip:<why>", "failures": [...], "hash":..,
    "nontrivial": bool, "tags": [...]}.  Returns an aggregate dict.
    """
    warm_up()
    _TASK["gen"], _TASK["oracle"] = gen, oracle
    workers = workers or min(12, os.cpu_count() or 4)
    t0 = time.time()
    results = []
    tasks = [(i, seed) for i in range(n)]
    if workers <= 1 or n < 8:
        for t in tasks:
            results.append(_work(t))
            if time_limit and time.time() - t0 > time_limit:
                break
    else:
        ctx = mp.get_context("fork")
        with ctx.Pool(workers) as pool:
            it = pool.imap_unordered(_work, tasks, chunksize=max(1, n // (workers * 8)))
            for r in it:
                results.append(r)
                if time_limit and time.time() - t0 > time_limit:
                    pool.terminate()
                    break
    results.sort(key=lambda r: r["idx"])
    agg = {"evaluations": len(results), "failures": [], "status_counts": {}, "tags": {}, "samples": [],
           "wall_s": round(time.time() - t0, 2)}
    hashes = set()
    for r in results:
        st = r.get("status", "ok")
        agg["status_counts"][st] = agg["status_counts"].get(st, 0) + 1
        for t in r.get("tags", []):
            agg["tags"][t] = agg["tags"].get(t, 0) + 1
        if st == "ok" and r.get("nontrivial", True) and r.get("hash"):
            hashes.add(r["hash"])
        for f in r.get("failures", []):
            f = dict(f)
            f.setdefault("replay", {})
            f["replay"].setdefault("case", r.get("case"))
            f["replay"]["case_index"] = r["idx"]
            agg["failures"].append(f)
        if st in ("gen-error", "oracle-error"):
            agg.setdefault("errors", []).append({k: r.get(k) for k in ("idx", "status", "error", "trace")})
        if len(agg["samples"]) < 3 and st == "ok" and r.get("sample") is not None:
            agg["samples"].append(r["sample"])
    agg["distinct_nontrivial"] = len(hashes)
    return agg
