"""C18 — the topology graph agrees with the solver about what is connected."""
import itertools

import numpy as np

import explore
import netgen
import oracles
from common import LeanDriver

GENERATORS = []
ASSUMPTIONS = ["networkx (multigraph container, connected components, shortest paths) is library code; components are modelled by "
               "reachability over the edge list and validated against the real unsupplied_junctions",
               "graph = solver equality is claimed for nets whose branches are undirected, hydraulically connecting elements; the "
               "known differences (heat consumers / active flow controllers, pressure controllers, circulation-pump-only supply) "
               "are fingerprinted separately"]

BR = [("pipe", "from_junction", "to_junction", "in_service"), ("valve", "junction", "element", "opened"),
      ("pump", "from_junction", "to_junction", "in_service"), ("compressor", "from_junction", "to_junction", "in_service"),
      ("flow_control", "from_junction", "to_junction", "in_service"), ("press_control", "from_junction", "to_junction", "in_service"),
      ("heat_exchanger", "from_junction", "to_junction", "in_service"), ("heat_consumer", "from_junction", "to_junction", "in_service"),
      ("circ_pump_pressure", "return_junction", "flow_junction", "in_service"),
      ("circ_pump_mass", "return_junction", "flow_junction", "in_service")]


def model_line(net, rs, rv):
    nodes = [int(j) for j in net.junction.index]
    dead = [int(j) for j in net.junction.index[~net.junction.in_service.values]]
    slacks = [int(j) for j in net.ext_grid.junction.values[net.ext_grid.in_service.values]] if oracles.has(net, "ext_grid") else []
    bs = []
    for comp in net.component_list:
        tbl = comp.table_name()
        row = next((r for r in BR if r[0] == tbl), None)
        if row is None or tbl not in net or not len(net[tbl]):
            continue
        t = net[tbl]
        for idx in t.index:
            pv = 1 if (tbl == "valve" and t.at[idx, "et"] == "pi") else 0
            bs.append("%s,%d,%d,%d,%d,%d" % (tbl, int(idx), int(t.at[idx, row[1]]), int(t.at[idx, row[2]]), int(bool(t.at[idx, row[3]])), pv))
    return "nxgraph %d %d :: %s :: %s :: %s :: %s" % (int(rs), int(rv), " ".join(map(str, nodes)), " ".join(map(str, dead)),
                                                     " ".join(map(str, slacks)), " ; ".join(bs))


def real_graph(net, rs, rv):
    from pandapipes.topology import create_nxgraph, unsupplied_junctions
    mg = create_nxgraph(net, respect_status_branches_all=rs, respect_status_valves=rv)
    edges = sorted("%d-%d:%s:%d" % (min(u, v), max(u, v), k[0], k[1]) for u, v, k in mg.edges(keys=True))
    un = sorted(str(int(j)) for j in unsupplied_junctions(net, mg=mg))
    return " ".join(edges) + " | " + " ".join(un)


def tie(ctx):
    explore.warm_up()
    rng = np.random.default_rng([ctx.seed, 18])
    lines, reals = [], []
    for _ in range(ctx.budget(40, 800)):
        s = gen(rng)
        net = netgen.build(s)
        for rs, rv in itertools.product([True, False], repeat=2):
            try:
                reals.append(real_graph(net, rs, rv))
            except Exception as e:
                reals.append("raise:%s" % type(e).__name__)
            lines.append(model_line(net, rs, rv))
    out = LeanDriver().run(lines)
    bad = []
    for line, o, r in zip(lines, out, reals):
        # string sort order of the model (lexicographic) vs python: compare as sets
        mo, mu = o.split(" | ") if " | " in o else (o, "")
        ro, ru = r.split(" | ") if " | " in r else (r, "")
        if sorted(mo.split()) != sorted(ro.split()) or sorted(mu.split()) != sorted(ru.split()):
            bad.append({"case": line[:300], "model": o[:300], "real": r[:300]})
            if len(bad) > 5:
                break
    return {"cases": len(lines), "disagreements": bad, "stats": {"graphs": len(lines), "option_combinations": 4}}


def gen(rng):
    r = rng.random()
    if r < 0.8:
        s = netgen.gen_hydraulic(rng, n_junc=int(rng.integers(3, 14)), features={"p_outage": 0.7, "p_pipe_valve": 0.4, "p_fc": 0.25})
        for _ in range(int(rng.integers(0, 3))):
            if s["pipes"]:
                s["pipes"][int(rng.integers(0, len(s["pipes"])))]["in_service"] = False
        netgen.fix_service_consistency(s)
    else:
        s = netgen.gen_heat_loop(rng)
        if rng.random() < 0.5:
            s["pipes"][int(rng.integers(0, len(s["pipes"])))]["in_service"] = False
    # engineered coincidence: a pipe carrying the label of a junction
    if s["pipes"] and rng.random() < 0.5:
        s["pipes"][0]["index"] = int(s["junctions"][-1]["index"])
        for i, p in enumerate(s["pipes"][1:], 1):
            p["index"] = 700 + i
    return s


def oracle(spec):
    from pandapipes.topology import create_nxgraph, unsupplied_junctions, calc_distance_to_junction
    import networkx as nx
    net, e = netgen.try_run(spec)
    fails = []

    def fail(fp, clause, **detail):
        if not any(f["fingerprint"] == fp for f in fails):
            fails.append({"fingerprint": fp, "clause": clause, "detail": detail})

    mg = create_nxgraph(net)
    # every in-service junction-to-junction branch element: exactly one edge between its junctions
    alive = set(int(j) for j in net.junction.index[net.junction.in_service.values])
    closed_pv = set()
    if oracles.has(net, "valve"):
        v = net.valve
        closed_pv = set(int(x) for x in v.element.values[(v.et.values == "pi") & ~v.opened.values.astype(bool)])
    for tbl, fc, tc, act in BR:
        if not oracles.has(net, tbl):
            continue
        t = net[tbl]
        for idx in t.index:
            if tbl == "valve" and t.at[idx, "et"] == "pi":
                if any(k == ("valve", idx) for _u, _v, k in mg.edges(keys=True)):
                    fail("C18:pipe-valve-has-edge", "a valve attached to a pipe adds no edge of its own", valve=int(idx))
                continue
            u, w = int(t.at[idx, fc]), int(t.at[idx, tc])
            expected = bool(t.at[idx, act]) and u in alive and w in alive and not (tbl == "pipe" and int(idx) in closed_pv)
            n_edges = sum(1 for a, b, k in mg.edges(keys=True) if k == (tbl, idx))
            between = sum(1 for a, b, k in mg.edges(keys=True) if k == (tbl, idx) and {a, b} == {u, w})
            if expected and (n_edges != 1 or between != 1):
                fail("C18:edge-count:%s" % tbl, "exactly one edge between its two junctions", table=tbl, index=int(idx), edges=n_edges)
            if not expected and n_edges != 0:
                fail("C18:edge-for-disabled:%s" % tbl, "no edge for out-of-service / cut elements", table=tbl, index=int(idx))
    # the status switches: `respect_status_branches_all=False` keeps an edge for every junction-to-junction element whatever its
    # status (only edges at out-of-service junctions vanish with their node); `respect_status_valves=False` stops closed
    # junction-pipe valves from cutting their pipe; `True` / default behave as above
    for rs, rv in ((False, True), (False, False), (True, False)):
        try:
            g2 = create_nxgraph(net, respect_status_branches_all=rs, respect_status_valves=rv)
        except Exception as ex:
            fail("C18:status-arguments:raises", "argument combinations", respect_status_branches_all=rs, respect_status_valves=rv,
                 exc=repr(ex)[:120])
            continue
        keys = [k for _a, _b, k in g2.edges(keys=True)]
        for tbl, fc, tc, act in BR:
            if not oracles.has(net, tbl):
                continue
            t = net[tbl]
            for idx in t.index:
                if tbl == "valve" and t.at[idx, "et"] == "pi":
                    continue
                u, w = int(t.at[idx, fc]), int(t.at[idx, tc])
                on = (bool(t.at[idx, act]) or not rs) and u in alive and w in alive and \
                    not (rv and tbl == "pipe" and int(idx) in closed_pv)
                cnt = keys.count((tbl, idx))
                if cnt != (1 if on else 0):
                    fail("C18:status-arguments:%s" % tbl, "edges under explicit status arguments", table=tbl, index=int(idx),
                         respect_status_branches_all=rs, respect_status_valves=rv, edges=cnt, expected=1 if on else 0,
                         element_active=bool(t.at[idx, act]))
    if set(mg.nodes()) - set(int(j) for j in net.junction.index):
        fail("C18:phantom-node", "graph nodes are junctions", nodes=sorted(set(mg.nodes()) - set(int(j) for j in net.junction.index))[:3])
    # unsupplied (plus out-of-service) = junctions without a pressure result
    special = []
    if any(e["in_service"] for e in spec["heat_consumers"]):
        special.append("heat_consumer")
    if any(e["in_service"] and e["control_active"] for e in spec["flow_controls"]):
        special.append("active_flow_control")
    if any(e["in_service"] for e in spec["press_controls"]):
        special.append("press_control")
    if spec["circ_pumps_p"] or spec["circ_pumps_m"]:
        special.append("circ_pump")
    if e is None or type(e).__name__ == "PipeflowNotConverged":
        un = set(int(j) for j in unsupplied_junctions(net)) | (set(int(j) for j in net.junction.index) - alive)
        if e is None:
            nanj = set(int(j) for j in net.res_junction.index[np.isnan(net.res_junction.p_bar.values)])
            if un != nanj:
                d = sorted(un ^ nanj)
                if special:
                    fail("C18:unsupplied-vs-solver:" + "+".join(special), "unsupplied junctions = junctions without pressure result",
                         differing=d[:4], graph_says_unsupplied=[j in un for j in d[:4]])
                else:
                    fail("C18:unsupplied-vs-solver", "unsupplied junctions = junctions without pressure result", differing=d[:4],
                         graph_says_unsupplied=[j in un for j in d[:4]])
    # distances = shortest-path sums of pipe lengths
    if oracles.has(net, "pipe") and alive:
        src = sorted(alive)[0]
        try:
            dist = calc_distance_to_junction(net, src)
        except Exception as ex:
            fail("C18:distance-raises:%s" % type(ex).__name__, "distance functions", exc=repr(ex)[:120])
            dist = None
        if dist is not None:
            g = nx.Graph()
            g.add_nodes_from(alive)
            for tbl, fc, tc, act in BR:
                if not oracles.has(net, tbl):
                    continue
                t = net[tbl]
                for idx in t.index:
                    if tbl == "valve" and t.at[idx, "et"] == "pi":
                        continue
                    u, w = int(t.at[idx, fc]), int(t.at[idx, tc])
                    if not (bool(t.at[idx, act]) and u in alive and w in alive) or (tbl == "pipe" and int(idx) in closed_pv):
                        continue
                    wgt = float(t.at[idx, "length_km"]) if tbl == "pipe" else 0.0
                    if g.has_edge(u, w):
                        wgt = min(wgt, g[u][w]["weight"])
                    g.add_edge(u, w, weight=wgt)
            ref = nx.single_source_dijkstra_path_length(g, src)
            for j, dv in dist.items():
                if j in ref and abs(ref[j] - dv) > 1e-12 * (1 + abs(dv)):
                    fail("C18:distance", "distance = shortest-path sum of pipe lengths", junction=int(j), reported=float(dv), expected=float(ref[j]))
                    break
            if set(int(j) for j in dist.index) != set(ref):
                fail("C18:distance-reach", "distances reported for the reachable junctions", reported=len(dist), expected=len(ref))
    return {"status": "ok", "failures": fails, "hash": netgen.structure_hash(spec), "nontrivial": netgen.nontrivial(spec),
            "tags": special or ["plain"], "sample": netgen.summarize(spec)}


def search(ctx, escalate=False):
    n = ctx.budget(200, 5000)
    if escalate:
        n = max(n, 1200)
    agg = explore.explore(ctx.seed, n, gen, oracle)
    agg["rule"] = ("nets with every branch component, junction-pipe valves (open and closed), consistent outage patterns, a pipe label "
                   "coinciding with a junction label: edge multiplicity per element, no phantom nodes, unsupplied_junctions vs NaN "
                   "pattern of the solver, distances vs an independent Dijkstra over pipe lengths")
    return agg


def replay(ctx, payload):
    explore.warm_up()
    return oracle(payload["case"]).get("failures") or None
