"""C17 — restructuring tools preserve referential integrity and physics."""
import copy

import numpy as np

import explore
import netgen
import oracles
from common import LeanDriver

GENERATORS = []
ASSUMPTIONS = ["the reference-skeleton specification is compared with the real toolbox functions on nets without junction-pipe "
               "valves and with disjoint pipe / junction label ranges (the regime in which the code implements it); nets with "
               "junction-pipe valves and label coincidences go to the search, where the code's deviations are known findings",
               "relabelling must leave results unchanged: compared bit for bit where the pit is unchanged, 1e-9 otherwise"]

# table -> junction reference columns (valve.element is a junction only for et == 'ju')
REFS = {"pipe": ["from_junction", "to_junction"], "valve": ["junction"], "pump": ["from_junction", "to_junction"],
        "compressor": ["from_junction", "to_junction"], "flow_control": ["from_junction", "to_junction"],
        "press_control": ["from_junction", "to_junction", "controlled_junction"],
        "heat_exchanger": ["from_junction", "to_junction"], "heat_consumer": ["from_junction", "to_junction"],
        "circ_pump_pressure": ["return_junction", "flow_junction"], "circ_pump_mass": ["return_junction", "flow_junction"],
        "ext_grid": ["junction"], "sink": ["junction"], "source": ["junction"], "mass_storage": ["junction"]}


def skeleton(net):
    js = sorted(int(j) for j in net.junction.index)
    pipes, elems = [], []
    for tbl, cols in REFS.items():
        if tbl not in net or not len(net[tbl]):
            continue
        t = net[tbl]
        for idx in t.index:
            refs = [int(t.at[idx, c]) for c in cols]
            pref = "-"
            if tbl == "valve":
                if t.at[idx, "et"] == "ju":
                    refs.append(int(t.at[idx, "element"]))
                else:
                    pref = str(int(t.at[idx, "element"]))
            (pipes if tbl == "pipe" else elems).append("%s,%d,%s,%s" % (tbl, int(idx), ".".join(map(str, refs)), pref))
    return js, pipes, elems


def show(js, pipes, elems):
    return " ".join(map(str, js)) + " | " + " ; ".join(sorted(pipes + elems))


def dangling(net):
    js = set(int(j) for j in net.junction.index)
    ps = set(int(p) for p in net.pipe.index) if "pipe" in net else set()
    out = []
    for tbl, cols in REFS.items():
        if tbl not in net or not len(net[tbl]):
            continue
        t = net[tbl]
        for idx in t.index:
            for c in cols:
                if int(t.at[idx, c]) not in js:
                    out.append((tbl, int(idx), c))
            if tbl == "valve":
                e = int(t.at[idx, "element"])
                if t.at[idx, "et"] == "ju" and e not in js:
                    out.append((tbl, int(idx), "element(ju)"))
                if t.at[idx, "et"] == "pi" and e not in ps:
                    out.append((tbl, int(idx), "element(pi)"))
    return out


def apply_real(net, op):
    import pandapipes as pp
    from pandapipes import toolbox as tb
    k = op[0]
    if k == "rj":
        tb.reindex_junctions(net, {int(j): int(j) + op[1] for j in net.junction.index})
    elif k == "rp":
        tb.reindex_pipes(net, {int(p): int(p) + op[1] for p in net.pipe.index})
    elif k == "dj":
        tb.drop_junctions(net, [j for j in op[1] if j in net.junction.index])
    elif k == "dp":
        tb.drop_pipes(net, [p for p in op[1] if p in net.pipe.index])
    elif k == "fu":
        tb.fuse_junctions(net, op[1], [j for j in op[2] if j in net.junction.index])


def op_text(op):
    if op[0] in ("rj", "rp"):
        return "%s %d" % op
    if op[0] in ("dj", "dp"):
        return "%s %s" % (op[0], ".".join(map(str, op[1])) or "999999")
    return "fu %d %s" % (op[1], ".".join(map(str, op[2])) or "999999")


def gen_ops(rng, net, n_ops):
    ops = []
    js = [int(j) for j in net.junction.index]
    ps = [int(p) for p in net.pipe.index] if "pipe" in net else []
    for _ in range(n_ops):
        r = rng.random()
        if r < 0.3:
            ops.append(("rj", int(rng.integers(1, 50))))
        elif r < 0.45 and ps:
            ops.append(("rp", int(rng.integers(1, 50))))
        elif r < 0.65 and len(js) > 2:
            ops.append(("dj", [int(x) for x in rng.choice(js, int(rng.integers(1, 3)), replace=False)]))
        elif r < 0.8 and ps:
            ops.append(("dp", [int(x) for x in rng.choice(ps, 1)]))
        elif len(js) > 2:
            pick = [int(x) for x in rng.choice(js, min(len(js), int(rng.integers(2, 5))), replace=False)]
            a, rest = pick[0], pick[1:]
            if rng.random() < 0.35:
                # the list of junctions to merge may name the survivor itself (a "station" given as a whole)
                rest.insert(int(rng.integers(0, len(rest) + 1)), a)
            ops.append(("fu", a, rest))
    return ops


def clean_spec(rng):
    """net in the regime where code and specification must agree: no junction-pipe valves, junction labels 100.., pipes 0.."""
    s = netgen.gen_hydraulic(rng, n_junc=int(rng.integers(3, 10)), features={"p_pipe_valve": 0.0, "p_special": 0.4, "p_fc": 0.3})
    for k, j in enumerate(s["junctions"]):
        j["index"] = 100 + 3 * k
    return s


def tie(ctx):
    explore.warm_up()
    rng = np.random.default_rng([ctx.seed, 17])
    lines, reals = [], []
    for _ in range(ctx.budget(60, 1500)):
        s = clean_spec(rng) if rng.random() < 0.8 else netgen.gen_heat_loop(rng)
        if "circ_pumps_p" in s:
            for k, j in enumerate(s["junctions"]):
                j["index"] = 100 + 3 * k
        net = netgen.build(s)
        js, pipes, elems = skeleton(net)
        ops = gen_ops(rng, net, int(rng.integers(1, 5)))
        # ops are generated against the original labels: translate drop / fuse arguments through earlier relabellings
        cur_shift_j = cur_shift_p = 0
        real_ops = []
        for op in ops:
            if op[0] == "rj":
                cur_shift_j += op[1]
                real_ops.append(op)
            elif op[0] == "rp":
                cur_shift_p += op[1]
                real_ops.append(op)
            elif op[0] == "dj":
                real_ops.append(("dj", [j + cur_shift_j for j in op[1]]))
            elif op[0] == "dp":
                real_ops.append(("dp", [p + cur_shift_p for p in op[1]]))
            else:
                real_ops.append(("fu", op[1] + cur_shift_j, [j + cur_shift_j for j in op[2]]))
        ok = True
        for op in real_ops:
            if op[0] == "fu" and op[1] not in net.junction.index:
                ok = False
                break
            try:
                apply_real(net, op)
            except Exception as e:
                reals.append("raise:%s" % type(e).__name__)
                ok = None
                break
        if ok is False:
            continue
        lines.append("toolbox :: %s :: %s :: %s :: %s" % (" ".join(map(str, js)), " ; ".join(pipes), " ; ".join(elems),
                                                         " ; ".join(op_text(o) for o in real_ops)))
        if ok:
            reals.append(show(*skeleton(net)))
    out = LeanDriver().run(lines)
    bad = []
    for line, o, r in zip(lines, out, reals):
        if o != r:
            bad.append({"case": line[:400], "model": o[:300], "real": r[:300]})
            if len(bad) > 6:
                break
    return {"cases": len(lines), "disagreements": bad, "stats": {"op_sequences": len(lines)}}


# ---- search ---------------------------------------------------------------------------------------------
def gen(rng):
    s = netgen.gen_hydraulic(rng, n_junc=int(rng.integers(4, 12)), features={"p_pipe_valve": 0.6, "p_special": 0.4, "p_fc": 0.3,
                                                                             "p_outage": 0.1})
    # engineered coincidences: pipe labels overlap junction labels
    labels = [j["index"] for j in s["junctions"]]
    for i, p in enumerate(s["pipes"]):
        p["index"] = int(labels[i % len(labels)]) if rng.random() < 0.6 else 500 + i
    seen = set()
    for p in s["pipes"]:
        while p["index"] in seen:
            p["index"] += 1000
        seen.add(p["index"])
    s["c17"] = {"seed": int(rng.integers(0, 2 ** 31)), "n_ops": int(rng.integers(1, 4)),
                "kind": str(rng.choice(["ops", "ops", "relabel_results", "subnet", "continuous_with_results"]))}
    return s


def oracle(spec):
    import pandapipes as pp
    from pandapipes import toolbox as tb
    v = spec["c17"]
    rng = np.random.default_rng(v["seed"])
    fails = []
    has_pv = any(x["et"] == "pi" for x in spec["valves"])

    def fail(fp, clause, **detail):
        if not any(f["fingerprint"] == fp for f in fails):
            fails.append({"fingerprint": fp, "clause": clause, "detail": detail})

    net = netgen.build(spec)
    if v["kind"] == "ops":
        for op in gen_ops(rng, net, v["n_ops"]):
            if op[0] == "fu" and op[1] not in net.junction.index:
                continue
            before = {t: net[t].copy() for t in REFS if t in net}
            try:
                apply_real(net, op)
            except Exception as e:
                fail("C17:%s:raises:%s%s" % (op[0], type(e).__name__, ":pipe-valve" if has_pv else ""),
                     "tool runs on nets with every component type", op=op_text(op), exc=repr(e)[:150])
                break
            d = dangling(net)
            if d:
                fail("C17:%s:dangling:%s.%s" % (op[0], d[0][0], d[0][2]), "no element references a missing junction or pipe",
                     op=op_text(op), first=d[:3])
                break
            if op[0] in ("rj",) and has_pv:
                # pipe references of junction-pipe valves must not be rewritten by a junction relabelling
                vb, va = before["valve"], net["valve"]
                m = vb.et.values == "pi"
                if m.any() and not np.array_equal(vb.element.values[m], va.element.values[m]):
                    fail("C17:rj:pipe-valve-element-rewritten", "labels only: pipe references follow pipes, not junctions",
                         op=op_text(op), before=vb.element.values[m].tolist(), after=va.element.values[m].tolist())
                    break
            if op[0] == "fu" and has_pv:
                vb, va = before["valve"], net["valve"]
                common = vb.index.intersection(va.index)
                m = vb.loc[common].et.values == "pi"
                if m.any() and not np.array_equal(vb.loc[common].element.values[m], va.loc[common].element.values[m]):
                    fail("C17:fu:pipe-valve-element-rewritten", "fuse redirects junction references only", op=op_text(op))
                    break
    elif v["kind"] == "continuous_with_results":
        # relabelling a net that holds results: the stored result rows follow their elements
        na, ea = netgen.try_run(spec, **oracles.TIGHT)
        if ea is not None:
            return {"status": "skip:" + type(ea).__name__}
        nb = copy.deepcopy(na)
        try:
            which = str(rng.choice(["junction", "elements"]))
            if which == "junction":
                lk = {"junction": tb.create_continuous_junction_index(nb, start=int(rng.integers(0, 5)), store_old_index=True)}
            else:
                lk = tb.create_continuous_elements_index(nb, start=int(rng.integers(0, 5)), add_df_to_reindex=set())
        except Exception as e:
            fail("C17:continuous:raises:%s%s" % (type(e).__name__, ":pipe-valve" if has_pv else ""),
                 "relabelling a net with results", exc=repr(e)[:150])
        else:
            dgl = dangling(nb)
            if dgl:
                fail("C17:continuous:dangling:%s.%s" % (dgl[0][0], dgl[0][2]), "no dangling references after relabelling", first=dgl[:3])
            imap = {}
            for t in oracles.res_tables(na):
                el = t[4:]
                m = lk.get(el) if isinstance(lk, dict) else None
                if m is None:
                    m = {int(i): int(i) for i in na[el].index}
                imap[el] = {int(i): int(m.get(i, i)) for i in na[el].index}
                if sorted(nb[t].index) != sorted(nb[el].index):
                    fail("C17:continuous:result-index:%s" % el, "result rows carry their element's label", table=t,
                         result_index=[int(x) for x in nb[t].index[:5]], element_index=[int(x) for x in nb[el].index[:5]])
            d = oracles.compare_results(na, nb, atol=0.0, rtol=0.0, index_map=imap)
            if d:
                fail("C17:continuous:stored-results:%s:%s" % (d[0][0], d[0][1]), "stored results follow their elements under relabelling",
                     first=d[:3], which=which)
    elif v["kind"] == "relabel_results":
        na, ea = netgen.try_run(spec, **oracles.TIGHT)
        if ea is not None:
            return {"status": "skip:" + type(ea).__name__}
        nb = netgen.build(spec)
        shift_j, shift_p = int(rng.integers(1, 60)), int(rng.integers(1, 60))
        try:
            tb.reindex_junctions(nb, {int(j): int(j) + shift_j for j in nb.junction.index})
            tb.reindex_pipes(nb, {int(p): int(p) + shift_p for p in nb.pipe.index})
            netgen.run(nb, spec, **oracles.TIGHT)
        except Exception as e:
            fail("C17:relabel:raises:%s%s" % (type(e).__name__, ":pipe-valve" if has_pv else ""),
                 "relabelling changes labels only", exc=repr(e)[:150])
        else:
            imap = {"junction": {int(j): int(j) + shift_j for j in na.junction.index},
                    "pipe": {int(p): int(p) + shift_p for p in na.pipe.index}}
            oracles.mask_zero_flow_friction(na, nb)
            d = oracles.compare_results(na, nb, atol=1e-7, rtol=1e-6, index_map=imap, flow_scale_tol=1e-3)
            if d and not (oracles.degenerate(na) or oracles.degenerate(nb)):
                fail("C17:relabel:results:%s%s" % (d[0][0], ":pipe-valve" if has_pv else ""), "results unchanged up to the relabelling",
                     first=d[:3])
    else:
        # a subnet made of a complete supplied region reproduces that region's results
        # half of the cases keep the calculation options on the net itself (set_user_pf_options), as converted nets do: the
        # subnet is then calculated by a plain pipeflow(sub) and must carry the options with it
        stored = bool(rng.random() < 0.5)
        all_opts = dict(spec["options"], **oracles.TIGHT)
        if stored:
            all_opts.update(friction_model="colebrook", max_iter_colebrook=200, tolerance_colebrook=1e-10, ambient_temperature=281.15)

        def calc(net):
            if stored:
                pp.pipeflow(net)
            else:
                pp.pipeflow(net, **all_opts)

        def build():
            net = netgen.build(spec)
            if stored:
                pp.set_user_pf_options(net, **all_opts)
            return net

        na = build()
        try:
            calc(na)
        except Exception as ea:
            return {"status": "skip:" + type(ea).__name__}
        sup = [int(j) for j in na.res_junction.index[~np.isnan(na.res_junction.p_bar.values)]]
        if len(sup) == len(na.junction):
            return {"status": "skip:everything-supplied"}
        try:
            sub = tb.select_subnet(build(), sup)
            calc(sub)
        except Exception as e:
            fail("C17:subnet:raises:%s%s" % (type(e).__name__, ":pipe-valve" if has_pv else ""),
                 "subnet of the supplied region reproduces its results", exc=repr(e)[:150])
        else:
            dgl = dangling(sub)
            if dgl:
                fail("C17:subnet:dangling:%s.%s" % (dgl[0][0], dgl[0][2]), "no dangling references in the subnet", first=dgl[:3])
            else:
                oracles.mask_zero_flow_friction(sub, na)
                d = oracles.compare_results(sub, na, atol=1e-7, rtol=1e-6, subset=True, flow_scale_tol=1e-3)
                if d and not (oracles.degenerate(na) or oracles.degenerate(sub)):
                    fail("C17:subnet:results:%s:%s%s" % (d[0][0], d[0][1], ":pipe-valve" if has_pv else ""),
                         "subnet of the supplied region reproduces its results", first=d[:3])
    return {"status": "ok", "failures": fails, "hash": netgen.structure_hash(spec) + v["kind"] + str(v["seed"] % 97),
            "nontrivial": True, "tags": [v["kind"], "pipe-valve" if has_pv else "no-pipe-valve"],
            "sample": dict(netgen.summarize(spec), kind=v["kind"])}


def search(ctx, escalate=False):
    n = ctx.budget(200, 5000)
    if escalate:
        n = max(n, 1200)
    agg = explore.explore(ctx.seed, n, gen, oracle)
    agg["rule"] = ("nets with every branch component, junction-pipe valves, remote controlled junctions and pipe labels that "
                   "coincide with junction labels; random sequences of reindex / drop / fuse operations with a dangling-reference "
                   "check after every operation; results before vs after relabelling; select_subnet of the supplied region")
    return agg


def replay(ctx, payload):
    explore.warm_up()
    return oracle(payload["case"]).get("failures") or None
