"""C13 — each time-series step equals a stand-alone calculation with that step's inputs."""
import copy
import tempfile

import numpy as np
import pandas as pd

import explore
import netgen
import oracles

GENERATORS = ["wiring"]
ASSUMPTIONS = ["pandapower's run_time_step / ConstControl / OutputWriter are library code: the 'controllers overwrite their "
               "cells' law is a hypothesis of the theorems and is exercised by every search case",
               "logged values are compared exactly (same floating-point path) with stand-alone runs on fresh copies"]


def tie(ctx):
    """the model loop against the real run_timeseries on flags: which steps are logged as numbers / as diverged"""
    explore.warm_up()
    rng = np.random.default_rng([ctx.seed, 13])
    bad = []
    n = 0
    for _ in range(ctx.budget(6, 60)):
        case = gen(rng)
        if case.get("c13_multinet"):
            continue
        real = run_series(case)
        if real is None:
            continue
        n += 1
        # model: apply = overwrite controlled cells; run = stand-alone outcome per row
        model_cont = [standalone_ok(case, t) for t in case["c13"]["steps"]]
        if case["c13"]["continue"]:
            model = model_cont
        else:
            model = []
            for ok in model_cont:
                model.append(ok)
                if not ok:
                    break
        got = [g for g in real["logged_ok"] if g is not None]
        if not case["c13"]["continue"]:
            got = got[:len(model)]
            if model and model[-1] is False:
                got[-1] = False if real["raised"] else got[-1]      # reported by the exception
        if got[:len(model)] != model or (not case["c13"]["continue"] and real["raised"] != (False in model)):
            bad.append({"steps": case["c13"]["steps"], "continue": case["c13"]["continue"], "real": got, "model": model,
                        "raised": real["raised"]})
    return {"cases": n, "disagreements": bad[:5], "stats": {"series": n}}


def gen(rng):
    if rng.random() < 0.15:
        return {"c13_multinet": True, "seed": int(rng.integers(0, 2 ** 31))}
    s = netgen.gen_hydraulic(rng, n_junc=int(rng.integers(3, 9)), fluid="water", features={"p_outage": 0.1, "p_special": 0.1})
    s["options"] = dict(s["options"], friction_model="nikuradse", nonlinear_method="constant", max_iter_hyd=40)
    while len(s["sinks"]) < 2:
        s["sinks"].append({"junction": len(s["junctions"]) - 1, "mdot": 0.1, "scaling": 1.0, "in_service": True})
    T = int(rng.integers(3, 9))
    prof = rng.uniform(0.2, 1.5, (T, len(s["sinks"])))
    bad_steps = []
    for t in range(T):
        if rng.random() < 0.2:
            prof[t, int(rng.integers(0, prof.shape[1]))] = 1e150     # a step no calculation can converge on (overflow)
            bad_steps.append(t)
    steps = [int(x) for x in rng.permutation(T)[:int(rng.integers(2, T + 1))]]
    # a second way for a step to fail: the supply is switched off for it (every ext grid out of service), so the
    # calculation fails before any solver stage runs
    outage = [t for t in range(T) if rng.random() < 0.15] if rng.random() < 0.4 else []
    s["c13"] = {"profile": (prof * np.array([e["mdot"] for e in s["sinks"]])).tolist(), "steps": steps,
                "continue": bool(rng.random() < 0.7), "infeasible": bad_steps, "outage": outage}
    return s


def standalone(case, t):
    import pandapipes as pp
    net = netgen.build(case)
    net.sink["mdot_kg_per_s"] = case["c13"]["profile"][t]
    if t in case["c13"].get("outage", []):
        net.ext_grid["in_service"] = False
    try:
        pp.pipeflow(net, **case["options"])
        return net
    except Exception:
        return None


def standalone_ok(case, t):
    return standalone(case, t) is not None


def run_series(case):
    import pandapower.control as control
    from pandapower.timeseries import DFData, OutputWriter
    from pandapipes.timeseries import run_timeseries
    net = netgen.build(case)
    prof = pd.DataFrame(case["c13"]["profile"], columns=[str(i) for i in net.sink.index])
    control.ConstControl(net, element="sink", variable="mdot_kg_per_s", element_index=net.sink.index.values,
                         data_source=DFData(prof), profile_name=[str(i) for i in net.sink.index])
    outage = case["c13"].get("outage", [])
    if outage:
        cols = ["eg%d" % i for i in net.ext_grid.index]
        base = net.ext_grid.in_service.values.astype(bool)
        sup = pd.DataFrame({c: [bool(b) and t not in outage for t in range(len(prof))] for c, b in zip(cols, base)})
        control.ConstControl(net, element="ext_grid", variable="in_service", element_index=net.ext_grid.index.values,
                             data_source=DFData(sup), profile_name=cols)
    steps = case["c13"]["steps"]
    ow = OutputWriter(net, steps, output_path=None, log_variables=[("res_junction", "p_bar"), ("res_pipe", "mdot_from_kg_per_s"),
                                                                    ("res_ext_grid", "mdot_kg_per_s")])
    raised = False
    try:
        run_timeseries(net, time_steps=steps, continue_on_divergence=case["c13"]["continue"], verbose=False, **case["options"])
    except Exception as e:
        raised = True
    # a diverged step is reported through the output writer's "powerflow_failed" parameter (its value rows stay at
    # their initial zeros); steps never reached (series stopped) have no entry
    par = ow.output["Parameters"]
    logged_ok = []
    for t in steps:
        flag = par.at[t, "powerflow_failed"] if t in par.index else None
        logged_ok.append(None if flag is None or (isinstance(flag, float) and np.isnan(flag)) else (not bool(flag)))
    return {"ow": ow, "net": net, "raised": raised, "logged_ok": logged_ok}


def oracle(case):
    if case.get("c13_multinet"):
        return multinet_series(case)
    real = run_series(case)
    fails = []
    steps = case["c13"]["steps"]
    stopped = False
    n_div = 0
    for i, t in enumerate(steps):
        ref = standalone(case, t)
        if stopped:
            break
        logged_p = real["ow"].np_results["res_junction.p_bar"][i]
        logged_m = real["ow"].np_results["res_pipe.mdot_from_kg_per_s"][i]
        logged_e = real["ow"].np_results["res_ext_grid.mdot_kg_per_s"][i]
        if ref is None:
            n_div += 1
            # with continue_on_divergence the step must carry the failed flag; without it the series raises instead
            if case["c13"]["continue"] and real["logged_ok"][i] is not False:
                fails.append({"fingerprint": "C13:diverged-step-logged-as-result", "clause": "a diverged step is reported as such",
                              "detail": {"position": i, "time_step": t}})
            if not case["c13"]["continue"]:
                stopped = True
                if not real["raised"]:
                    fails.append({"fingerprint": "C13:divergence-not-raised", "clause": "diverged step stops the series",
                                  "detail": {"position": i, "time_step": t}})
            continue
        if real["logged_ok"][i] is not True:
            fails.append({"fingerprint": "C13:converged-step-flagged-diverged", "clause": "a diverged step is reported as such",
                          "detail": {"position": i, "time_step": t, "flag": real["logged_ok"][i]}})
            continue
        for name, lg, rf in (("p_bar", logged_p, ref.res_junction.p_bar.values), ("mdot", logged_m, ref.res_pipe.mdot_from_kg_per_s.values),
                             ("ext_grid", logged_e, ref.res_ext_grid.mdot_kg_per_s.values)):
            if not np.array_equal(np.asarray(lg, float), np.asarray(rf, float), equal_nan=True):
                fails.append({"fingerprint": "C13:step-differs-from-standalone:%s" % name,
                              "clause": "logged step = stand-alone pipeflow with that step's profile values",
                              "detail": {"position": i, "time_step": t, "logged": np.asarray(lg, float)[:4].tolist(),
                                         "standalone": np.asarray(rf, float)[:4].tolist(),
                                         "preceded_by_diverged": n_div > 0}})
                break
    return {"status": "ok", "failures": fails, "hash": netgen.structure_hash(case) + str(steps), "nontrivial": n_div > 0 or len(steps) > 2,
            "tags": ["continue" if case["c13"]["continue"] else "stop", "div:%d" % min(n_div, 2)],
            "sample": {"net": netgen.summarize(case), "steps": steps, "infeasible": case["c13"]["infeasible"], "outage": case["c13"].get("outage", []),
                       "continue": case["c13"]["continue"]}}


def _gas_member(pp, fluid, p_bar):
    net = pp.create_empty_network(fluid=fluid)
    j = pp.create_junctions(net, 3, pn_bar=p_bar, tfluid_k=283.15)
    pp.create_ext_grid(net, j[0], p_bar=p_bar, t_k=283.15)
    pp.create_pipe_from_parameters(net, j[0], j[1], 0.8, 200.0)
    pp.create_pipe_from_parameters(net, j[1], j[2], 0.6, 150.0)
    pp.create_sink(net, j[2], 0.05)
    return net, j


def multinet_series(case):
    """multi-energy time series: three gas nets, two gas-to-gas couplings out of net `a` into `b` and `c` (same level, different
    orders), a profile on the coupled sinks of `a`; every logged step of `b` and `c` equals a stand-alone pipeflow on a fresh
    member net carrying the converted feed-in of that step"""
    import pandapipes as pp
    import pandapower.control as control
    from pandapower.timeseries import DFData, OutputWriter
    from pandapipes.multinet.create_multinet import create_empty_multinet, add_nets_to_multinet
    from pandapipes.multinet.control.controller.multinet_control import GasToGasConversion
    from pandapipes.multinet.timeseries.run_time_series_multinet import run_timeseries as run_ts_mn
    rng = np.random.default_rng(case["seed"])
    fluids = [str(x) for x in rng.choice(["hgas", "lgas", "methane", "hydrogen"], 3, replace=False)]
    (a, ja), (b, jb), (c, jc) = (_gas_member(pp, fluids[0], 30.0), _gas_member(pp, fluids[1], 20.0), _gas_member(pp, fluids[2], 16.0))
    mn = create_empty_multinet("verif_ts")
    add_nets_to_multinet(mn, a=a, b=b, c=c)
    hhv = {k: float(np.ravel(pp.get_fluid(n).get_property("hhv"))[0]) for k, n in (("a", a), ("b", b), ("c", c))}
    s1, s2 = pp.create_sink(a, ja[2], 0.01), pp.create_sink(a, ja[1], 0.01)
    src_b, src_c = pp.create_source(b, jb[2], 0.0), pp.create_source(c, jc[1], 0.0)
    e1, e2 = float(rng.uniform(0.5, 0.95)), float(rng.uniform(0.5, 0.95))
    orders = [0, 1] if rng.random() < 0.5 else [1, 0]
    GasToGasConversion(mn, s1, src_b, e1, name_gas_net_from="a", name_gas_net_to="b", order=orders[0])
    GasToGasConversion(mn, s2, src_c, e2, name_gas_net_from="a", name_gas_net_to="c", order=orders[1])
    T = int(rng.integers(3, 7))
    prof = pd.DataFrame({"s1": rng.uniform(0.01, 0.2, T), "s2": rng.uniform(0.01, 0.2, T)})
    control.ConstControl(a, element="sink", variable="mdot_kg_per_s", element_index=[s1, s2], data_source=DFData(prof),
                         profile_name=["s1", "s2"])
    steps = [int(x) for x in rng.permutation(T)[:int(rng.integers(2, T + 1))]]
    ows = {k: OutputWriter(n, steps, output_path=None, log_variables=[("res_junction", "p_bar"), ("res_source", "mdot_kg_per_s")])
           for k, n in (("b", b), ("c", c))}
    try:
        run_ts_mn(mn, time_steps=steps, max_iter_hyd=60, verbose=False)
    except Exception as e:
        return {"status": "skip:" + type(e).__name__}
    fails = []
    for key, fl, src, col, eff, p0 in (("b", fluids[1], src_b, "s1", e1, 20.0), ("c", fluids[2], src_c, "s2", e2, 16.0)):
        for i, t in enumerate(steps):
            feed = float(prof[col].values[t]) * (hhv["a"] / hhv[key]) * eff
            ref, jr = _gas_member(pp, fl, p0)
            pp.create_source(ref, jr[2] if key == "b" else jr[1], feed)
            pp.pipeflow(ref, max_iter_hyd=60)
            logged = np.asarray(ows[key].np_results["res_junction.p_bar"][i], float)
            lsrc = float(np.asarray(ows[key].np_results["res_source.mdot_kg_per_s"][i], float)[0])
            if abs(lsrc - feed) > 1e-12 * (1 + abs(feed)) or not np.allclose(logged, ref.res_junction.p_bar.values, rtol=1e-10, atol=1e-11):
                fails.append({"fingerprint": "C13:multinet-step-differs-from-standalone:%s" % ("first-order" if (key == "b") == (orders[0] == 0) else "later-order"),
                              "clause": "logged step = stand-alone pipeflow with that step's values (multi-energy time series)",
                              "detail": {"member_net": key, "position": i, "time_step": t, "logged_feed_in": lsrc, "expected_feed_in": feed,
                                         "logged_p": logged[:3].tolist(), "standalone_p": ref.res_junction.p_bar.values[:3].tolist()}})
                break
        if fails:
            break
    return {"status": "ok", "failures": fails, "hash": "mn" + str(sorted(case.items())), "nontrivial": True, "tags": ["multinet"],
            "sample": dict(case, steps=steps, fluids=fluids)}


def search(ctx, escalate=False):
    n = ctx.budget(60, 1500)
    if escalate:
        n = max(n, 400)
    agg = explore.explore(ctx.seed, n, gen, oracle)
    agg["rule"] = ("time series of 2-8 steps in random order / subsets over sink profiles incl. infeasible rows, with and without "
                   "continue_on_divergence, run through the real run_timeseries with ConstControl + OutputWriter; every logged row "
                   "is compared exactly with a stand-alone pipeflow on a fresh copy carrying that step's values")
    return agg


def replay(ctx, payload):
    explore.warm_up()
    return oracle(payload["case"]).get("failures") or None
