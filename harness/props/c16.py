"""C16 — element creation keeps the net referentially intact, atomic and as documented."""
import copy
import inspect

import numpy as np
import pandas as pd

GENERATORS = ["create_flows"]
ASSUMPTIONS = ["the flow words are an abstraction of the create functions' statement order (loops / branches flattened in source "
               "order); the fault enumeration below runs every create function with every kind of invalid argument at every "
               "reference position on nets of every sector and compares complete snapshots",
               "null-likes (None / NaN / '') are canonicalised when bulk and single creation are compared"]

BAD_J = 987654


def snapshot(net):
    out = {}
    for k in sorted(net.keys()):
        v = net[k]
        if isinstance(v, pd.DataFrame):
            out[k] = (tuple(v.columns), tuple(v.index), v.to_json())
        elif k == "component_list":
            out[k] = tuple(c.__name__ for c in v)
        elif k == "std_types":
            out[k] = _std_repr(v)
    return out


def _std_repr(v):
    """value-level image of the standard-type library (names and every parameter)"""
    if isinstance(v, dict):
        return tuple(sorted((str(k), _std_repr(x)) for k, x in v.items()))
    if hasattr(v, "reg_par"):
        return ("regression", tuple(float(x) for x in np.ravel(v.reg_par)))
    if isinstance(v, float) and v != v:
        return "nan"
    return repr(v)


def diff(a, b):
    ks = sorted(set(a) | set(b))
    return [k for k in ks if a.get(k) != b.get(k)]


def base_net(pp, sector, populated):
    from pandapipes.pandapipes_net import Sector
    fluid = "lgas" if sector == Sector.GAS else "water"
    net = pp.create_empty_network(fluid=fluid, sector=sector)
    if populated:
        j = pp.create_junctions(net, 4, 5.0, 300.0, index=[3, 7, 8, 20])
        pp.create_pipe_from_parameters(net, 3, 7, 0.1, 100.0, index=5)
        pp.create_pipe_from_parameters(net, 7, 8, 0.1, 100.0, index=9)
    return net


# valid keyword arguments of every create function on the populated base net (junctions 3,7,8,20; pipes 5,9)
def valid_calls():
    j, p = [3, 7, 8, 20], [5, 9]
    return {
        "create_junction": dict(pn_bar=5.0, tfluid_k=300.0),
        "create_sink": dict(junction=7, mdot_kg_per_s=0.1),
        "create_source": dict(junction=7, mdot_kg_per_s=0.1),
        "create_mass_storage": dict(junction=7, mdot_kg_per_s=0.1),
        "create_ext_grid": dict(junction=3, p_bar=5.0, t_k=300.0),
        "create_heat_exchanger": dict(from_junction=7, to_junction=8, qext_w=1000.0, inner_diameter_mm=100.0),
        "create_pipe": dict(from_junction=8, to_junction=20, std_type="100_GGG", length_km=0.2),
        "create_pipe_from_parameters": dict(from_junction=8, to_junction=20, length_km=0.2, inner_diameter_mm=80.0),
        "create_valve": dict(junction=8, element=20, et="ju", inner_diameter_mm=80.0),
        "create_pump": dict(from_junction=8, to_junction=20, std_type="P1"),
        "create_pump_from_parameters": dict(from_junction=8, to_junction=20, new_std_type_name="verif_pump",
                                            pressure_list=[6.1, 5.8, 4.0], flowrate_list=[0, 19, 83], reg_polynomial_degree=2),
        "create_circ_pump_const_pressure": dict(return_junction=20, flow_junction=3, p_flow_bar=5.0, plift_bar=1.0, t_flow_k=350.0),
        "create_circ_pump_const_mass_flow": dict(return_junction=20, flow_junction=3, p_flow_bar=5.0, mdot_flow_kg_per_s=1.0, t_flow_k=350.0),
        "create_compressor": dict(from_junction=8, to_junction=20, pressure_ratio=1.2),
        "create_pressure_control": dict(from_junction=8, to_junction=20, controlled_junction=20, controlled_p_bar=4.0),
        "create_flow_control": dict(from_junction=8, to_junction=20, controlled_mdot_kg_per_s=0.2),
        "create_heat_consumer": dict(from_junction=8, to_junction=20, qext_w=1000.0, controlled_mdot_kg_per_s=0.2),
        "create_junctions": dict(nr_junctions=2, pn_bar=5.0, tfluid_k=300.0),
        "create_sinks": dict(junctions=[7, 8], mdot_kg_per_s=[0.1, 0.2]),
        "create_sources": dict(junctions=[7, 8], mdot_kg_per_s=[0.1, 0.2]),
        "create_ext_grids": dict(junctions=[3, 7], p_bar=[5.0, 5.0], t_k=[300.0, 300.0]),
        "create_pipes": dict(from_junctions=[8, 3], to_junctions=[20, 20], std_type="100_GGG", length_km=[0.2, 0.3]),
        "create_pipes_from_parameters": dict(from_junctions=[8, 3], to_junctions=[20, 20], length_km=[0.2, 0.3], inner_diameter_mm=80.0),
        "create_valves": dict(junctions=[8, 3], elements=[20, 20], et="ju", inner_diameter_mm=80.0),
        "create_pressure_controls": dict(from_junctions=[8, 3], to_junctions=[20, 20], controlled_junctions=[20, 20], controlled_p_bar=[4.0, 4.0]),
        "create_flow_controls": dict(from_junctions=[8, 3], to_junctions=[20, 20], controlled_mdot_kg_per_s=[0.2, 0.1]),
        "create_heat_exchangers": dict(from_junctions=[8, 3], to_junctions=[20, 20], qext_w=[1000.0, 5.0], inner_diameter_mm=80.0),
        "create_heat_consumers": dict(from_junctions=[8, 3], to_junctions=[20, 20], qext_w=[1000.0, 5.0], controlled_mdot_kg_per_s=[0.2, 0.1]),
    }


TABLE_OF = {"create_junction": "junction", "create_junctions": "junction", "create_sink": "sink", "create_sinks": "sink",
            "create_source": "source", "create_sources": "source", "create_mass_storage": "mass_storage",
            "create_ext_grid": "ext_grid", "create_ext_grids": "ext_grid", "create_heat_exchanger": "heat_exchanger",
            "create_heat_exchangers": "heat_exchanger", "create_pipe": "pipe", "create_pipes": "pipe",
            "create_pipe_from_parameters": "pipe", "create_pipes_from_parameters": "pipe", "create_valve": "valve",
            "create_valves": "valve", "create_pump": "pump", "create_pump_from_parameters": "pump", "create_circ_pump_const_pressure": "circ_pump_pressure",
            "create_circ_pump_const_mass_flow": "circ_pump_mass", "create_compressor": "compressor",
            "create_pressure_control": "press_control", "create_pressure_controls": "press_control",
            "create_flow_control": "flow_control", "create_flow_controls": "flow_control",
            "create_heat_consumer": "heat_consumer", "create_heat_consumers": "heat_consumer"}


def faults(fn, kw):
    """(label, kwargs) for every kind of invalid argument at every position"""
    out = []
    for k, v in kw.items():
        if "junction" in k and k != "nr_junctions":
            if isinstance(v, list):
                for pos in range(len(v)):
                    bad = list(v)
                    bad[pos] = BAD_J
                    out.append(("missing-junction:%s[%d]" % (k, pos), dict(kw, **{k: bad})))
            else:
                out.append(("missing-junction:%s" % k, dict(kw, **{k: BAD_J})))
        if k == "std_type":
            out.append(("missing-std_type", dict(kw, std_type="no_such_type")))
    if fn in ("create_valve",):
        out.append(("missing-junction:element", dict(kw, element=BAD_J)))
        out.append(("missing-pipe:element", dict(kw, et="pi", element=4242)))
    if fn in ("create_valves",):
        out.append(("missing-junction:elements[1]", dict(kw, elements=[20, BAD_J])))
        out.append(("missing-pipe:elements[0]", dict(kw, et="pi", elements=[4242, 5])))
    if fn == "create_junction":
        out.append(("bad-geodata", dict(kw, geodata=(1, 2, 3))))
    if fn == "create_heat_consumer":
        out.append(("bad-setpoints", dict(kw, deltat_k=10.0)))
    return out


def tie(ctx):
    """the generated flow words against the real functions: a call whose FIRST reference check fails must raise and leave
    every row table unchanged (model: failed_call_writes_no_row); on a net lacking the element table the table appears
    exactly when the word has its `A` before the failing `K` (model: exec)"""
    import json
    import os
    import pandapipes as pp
    from pandapipes.pandapipes_net import Sector
    from common import GEN_DIR
    flows = dict(json.load(open(os.path.join(GEN_DIR, "meta.json")))["create_flows"]["flows"])
    calls = valid_calls()
    bad = []
    n = 0
    for fn, kw in calls.items():
        if fn not in flows:
            bad.append({"function": fn, "what": "no generated flow"})
            continue
        for label, bkw in faults(fn, kw)[:2]:
            net = base_net(pp, Sector.ALL, True)
            before = snapshot(net)
            try:
                getattr(pp, fn)(net, **bkw)
                raised = False
            except Exception:
                raised = True
            n += 1
            after = snapshot(net)
            rows_changed = [k for k in diff(before, after) if k not in ("component_list",)]
            model_rows = 0 if raised else None
            if raised and rows_changed:
                bad.append({"function": fn, "fault": label, "what": "model predicts no row written, real changed", "tables": rows_changed})
    for fn in flows:
        if fn not in calls:
            bad.append({"function": fn, "what": "create function without a harness entry (new function?)"})
    return {"cases": n, "disagreements": bad[:8], "stats": {"functions": len(flows), "calls": n}}


def norm_cell(v):
    if v is None or (isinstance(v, float) and np.isnan(v)) or v == "":
        return None
    return v


def search(ctx, escalate=False):
    import pandapipes as pp
    from pandapipes.pandapipes_net import Sector
    fails, samples = [], []
    seen = set()
    n = 0
    distinct = set()

    def fail(fp, clause, **detail):
        if fp not in seen:
            seen.add(fp)
            fails.append({"fingerprint": fp, "clause": clause, "detail": detail, "replay": {"case": {"fingerprint": fp}}})

    calls = valid_calls()
    for sector in (Sector.ALL, Sector.GAS, Sector.HEAT, Sector.WATER):
        for fn, kw in calls.items():
            # --- invalid arguments: raise and leave the whole net unchanged
            for label, bkw in faults(fn, kw) + [("duplicate-index", None)]:
                net = base_net(pp, sector, True)
                tbl = TABLE_OF[fn]
                had_table = tbl in net
                if label == "duplicate-index":
                    try:
                        idx = getattr(pp, fn)(net, **kw)
                    except Exception:
                        continue
                    first = int(np.ravel(idx)[0])
                    bkw = dict(kw, index=first if not fn.endswith("s") or fn == "create_mass_storage" else
                               [first] + [first + 1000 + i for i in range(len(np.ravel(idx)) - 1)])
                    if fn == "create_junctions":
                        bkw = dict(kw, index=[first, first + 1000])
                before = snapshot(net)
                try:
                    getattr(pp, fn)(net, **bkw)
                    raised = None
                except Exception as e:
                    raised = e
                n += 1
                distinct.add((fn, label.split(":")[0], str(sector)))
                after = snapshot(net)
                d = diff(before, after)
                if raised is None:
                    fail("C16:accepted:%s:%s" % (fn, label.split("[")[0]), "refuses invalid references / duplicate indices",
                         function=fn, fault=label, sector=str(sector))
                elif d:
                    if set(d) <= {tbl, "component_list", "res_" + tbl} and not had_table and len(net[tbl]) == 0:
                        fail("C16:empty-table-left-behind", "a rejected call leaves the net unchanged", function=fn, fault=label,
                             sector=str(sector), changed=d)
                    else:
                        fail("C16:not-atomic:%s" % fn, "a rejected call leaves the net unchanged", function=fn, fault=label,
                             sector=str(sector), changed=d)
                if len(samples) < 4:
                    samples.append({"function": fn, "fault": label, "sector": str(sector), "raised": type(raised).__name__ if raised else None})
    # --- a successful call adds its rows and changes nothing else (std-type library, other tables) ----------------
    variants = [(fn, kw, "plain") for fn, kw in calls.items()]
    for fn in ("create_pipe", "create_pipes"):
        variants.append((fn, dict(calls[fn], k_mm=0.55, u_w_per_m2k=1.5), "overrides"))
        variants.append((fn, dict(calls[fn], std_type="80_GGG", k_mm=0.55), "overrides-80_GGG"))
    for fn, kw, label in variants:
        net = base_net(pp, Sector.ALL, True)
        tbl = TABLE_OF[fn]
        before = snapshot(net)
        try:
            getattr(pp, fn)(net, **kw)
        except Exception:
            continue
        n += 1
        distinct.add((fn, "adds-only", label))
        allowed = {tbl, tbl + "_geodata", "res_" + tbl, "component_list"}
        if "new_std_type_name" in kw:
            allowed.add("std_types")
        d = [k for k in diff(before, snapshot(net)) if k not in allowed]
        if d:
            fail("C16:successful-call-changes-other-parts:%s:%s" % (fn, d[0]), "adds exactly the requested rows, net otherwise unchanged",
                 function=fn, variant=label, changed=d)
        if fn in ("create_pipe", "create_pipes") and label != "plain":
            # ... and a later creation from the same std type without overrides gets the type's own parameters
            st = kw["std_type"]
            a = pp.create_pipe(net, 8, 20, std_type=st, length_km=0.1)
            ref = base_net(pp, Sector.ALL, True)
            b = pp.create_pipe(ref, 8, 20, std_type=st, length_km=0.1)
            for c in ("k_mm", "u_w_per_m2k", "inner_diameter_mm"):
                x, y = norm_cell(net.pipe.at[a, c]), norm_cell(ref.pipe.at[b, c])
                if x != y:
                    fail("C16:std-type-parameters-after-override:%s" % c, "std-type creation uses the type's parameters",
                         std_type=st, column=c, after_override=x, fresh=y)
    # --- bulk = one by one; std type = parameters; dtypes preserved ------------------------------------------
    pairs = [("create_sinks", "create_sink", {"junctions": "junction"}), ("create_sources", "create_source", {"junctions": "junction"}),
             ("create_ext_grids", "create_ext_grid", {"junctions": "junction"}),
             ("create_pipes_from_parameters", "create_pipe_from_parameters", {"from_junctions": "from_junction", "to_junctions": "to_junction"}),
             ("create_pipes", "create_pipe", {"from_junctions": "from_junction", "to_junctions": "to_junction"}),
             ("create_valves", "create_valve", {"junctions": "junction", "elements": "element"}),
             ("create_flow_controls", "create_flow_control", {"from_junctions": "from_junction", "to_junctions": "to_junction"}),
             ("create_pressure_controls", "create_pressure_control", {"from_junctions": "from_junction", "to_junctions": "to_junction", "controlled_junctions": "controlled_junction"}),
             ("create_heat_exchangers", "create_heat_exchanger", {"from_junctions": "from_junction", "to_junctions": "to_junction"}),
             ("create_heat_consumers", "create_heat_consumer", {"from_junctions": "from_junction", "to_junctions": "to_junction"})]
    def per_element(kw, net):
        """the same bulk call with every scalar argument given per element (for std_type: different types)"""
        m = len(next(v for v in kw.values() if isinstance(v, list)))
        out = {}
        for k, v in kw.items():
            if isinstance(v, list):
                out[k] = v
            elif k == "std_type":
                names = sorted(net.std_types["pipe"])
                out[k] = [v] + [x for x in names if x != v][:m - 1]
            else:
                out[k] = [v] * m
        return out

    for bulk, single, ren in pairs:
        for populated_first, listed in ((False, False), (True, False), (False, True)):
            na, nb = base_net(pp, Sector.ALL, True), base_net(pp, Sector.ALL, True)
            kw = calls[bulk] if not listed else per_element(calls[bulk], na)
            if populated_first:
                for net in (na, nb):
                    getattr(pp, single)(net, **calls[single])
            getattr(pp, bulk)(na, **kw)
            m = len(next(v for v in kw.values() if isinstance(v, list)))
            for i in range(m):
                skw = {ren.get(k, k): (v[i] if isinstance(v, list) else v) for k, v in kw.items()}
                getattr(pp, single)(nb, **skw)
            n += 1
            distinct.add((bulk, "bulk-vs-single", populated_first, listed))
            tbl = TABLE_OF[bulk]
            a, b = na[tbl], nb[tbl]
            if list(a.index) != list(b.index) or list(a.columns) != list(b.columns):
                fail("C16:bulk-vs-single:%s:shape" % bulk, "bulk creation = one by one", table=tbl)
                continue
            for c in a.columns:
                va, vb = [norm_cell(x) for x in a[c].tolist()], [norm_cell(x) for x in b[c].tolist()]
                if va != vb:
                    fail("C16:bulk-vs-single:%s:%s" % (bulk, c), "bulk creation = one by one", table=tbl, column=c,
                         bulk=str(va)[:80], single=str(vb)[:80])
                if str(a[c].dtype) != str(b[c].dtype):
                    fail("C16:bulk-vs-single-dtype:%s:%s" % (bulk, c), "column dtypes", table=tbl, column=c,
                         bulk=str(a[c].dtype), single=str(b[c].dtype))
    # std type vs parameters
    net = base_net(pp, Sector.ALL, True)
    for nm, par in list(net.std_types["pipe"].items())[:ctx.budget(8, 100)]:
        a = pp.create_pipe(net, 8, 20, std_type=nm, length_km=0.2)
        b = pp.create_pipe_from_parameters(net, 8, 20, length_km=0.2, inner_diameter_mm=par["inner_diameter_mm"],
                                           k_mm=par.get("k_mm", 0.2) if not pd.isnull(par.get("k_mm", np.nan)) else 0.2,
                                           u_w_per_m2k=par.get("u_w_per_m2k", np.nan))
        n += 1
        for c in ("inner_diameter_mm", "k_mm", "u_w_per_m2k", "sections", "loss_coefficient", "in_service"):
            x, y = norm_cell(net.pipe.at[a, c]), norm_cell(net.pipe.at[b, c])
            if x != y:
                fail("C16:stdtype-vs-parameters:%s" % c, "std-type pipe = pipe from that type's parameters", std_type=nm, a=x, b=y)
    # documented default reaches the table: a pipe created with all defaults uses the ambient temperature
    x = net.pipe.at[a, "text_k"]
    if not (x is None or (isinstance(x, float) and np.isnan(x))):
        fail("C16:create_pipe-text_k-default", "documented default (None = ambient temperature)", value=float(x))
    return {"evaluations": n, "distinct_nontrivial": len(distinct), "failures": fails, "samples": samples,
            "rule": "fault enumeration: every create function x {missing junction at every reference position, missing pipe, missing "
                    "std type, duplicate index, malformed geodata / set-points} x nets of sectors all/gas/heat/water: must raise and "
                    "leave a complete snapshot of the net unchanged; bulk vs one-by-one on fresh and populated tables; std type vs "
                    "parameters; default text_k"}


def replay(ctx, payload):
    r = search(ctx)
    fp = payload.get("fingerprint")
    return [f for f in r["failures"] if f["fingerprint"] == fp] or None
