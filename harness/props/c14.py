"""C14 — options resolve by the documented precedence: call > user options > defaults."""
import copy
import itertools

import numpy as np

from common import LeanDriver

GENERATORS = ["default_options"]
ASSUMPTIONS = ["option values are opaque to init_options (no validation); floats are compared by repr",
               "layers are python dicts (unique keys)"]
STAGE = ["max_iter_hyd", "max_iter_therm", "max_iter_bidirect"]


def enc(v):
    if v is None:
        return "n"
    if isinstance(v, (bool, np.bool_)):
        return "b:%d" % int(v)
    if isinstance(v, (int, np.integer)):
        return "i:%d" % v
    if isinstance(v, float):
        return "f:%r" % v
    return "s:%s" % v


def enc_layer(d):
    return ";".join("%s=%s" % (k, enc(v)) for k, v in d.items())


def canon(d):
    return ";".join("%s=%s" % (k, enc(d[k])) for k in sorted(d))


def alt(v, which):
    """a value of the same type as the default v, different per layer"""
    if isinstance(v, bool):
        return (not v) if which == 0 else v
    if isinstance(v, int):
        return v + 3 + which
    if isinstance(v, float):
        return v * (2.0 + which)
    if v is None:
        return 7.5 + which
    return "%s_%s" % (v, "user" if which == 0 else "call")


def cases():
    from pandapipes.pf import pipeflow_setup as ps
    defaults = ps.default_options
    out = []
    keys = list(defaults) + ["iter", "t_start", "interactive_plotting", "my_unknown_option", "hyd_flag"]
    for k in keys:
        dv = defaults.get(k, 4)
        for pu, pk in itertools.product([0, 1], repeat=2):
            u = {k: alt(dv, 0)} if pu else {}
            kw = {k: alt(dv, 1)} if pk else {}
            out.append((u, kw, "key:%s:%d%d" % (k, pu, pk)))
    # iter x stage keys in both layers
    for iu, ik in itertools.product([None, "none", 5], [None, "none", 8]):
        for su, sk in itertools.product(range(8), repeat=2):
            u, kw = {}, {}
            if iu is not None:
                u["iter"] = None if iu == "none" else iu
            if ik is not None:
                kw["iter"] = None if ik == "none" else ik
            for b, key in enumerate(STAGE):
                if su >> b & 1:
                    u[key] = 20 + b
                if sk >> b & 1:
                    kw[key] = 30 + b
            out.append((u, kw, "iter:%s:%s:%d:%d" % (iu, ik, su, sk)))
    # couplings
    for upd_u, upd_k, re_u, re_k in itertools.product([None, False, True], repeat=4):
        u, kw = {}, {}
        if upd_u is not None:
            u["only_update_hydraulic_matrix"] = upd_u
        if upd_k is not None:
            kw["only_update_hydraulic_matrix"] = upd_k
        if re_u is not None:
            u["reuse_internal_data"] = re_u
        if re_k is not None:
            kw["reuse_internal_data"] = re_k
        out.append((u, kw, "reuse:%s:%s:%s:%s" % (upd_u, upd_k, re_u, re_k)))
    for mu, mk in itertools.product([None, "all", "heat", "bidirectional"], repeat=2):
        u = {"mode": mu} if mu else {}
        kw = {"mode": mk} if mk else {}
        out.append((u, kw, "mode:%s:%s" % (mu, mk)))
    for nu, nk in itertools.product([None, False, True], repeat=2):
        u = {"use_numba": nu} if nu is not None else {}
        kw = {"use_numba": nk} if nk is not None else {}
        out.append((u, kw, "numba:%s:%s" % (nu, nk)))
    out.append(({"fluid": "hgas"}, {"fluid": "lgas"}, "fluid-layers"))
    return out


def tie(ctx):
    import pandapipes as pp
    from pandapipes.pf import pipeflow_setup as ps
    drv = LeanDriver()
    cs = cases()
    lines, real = [], []
    bad = []
    defaults_snapshot = copy.deepcopy(ps.default_options)
    for numba_flag in (True, False):
        saved = ps.numba_installed
        ps.numba_installed = numba_flag
        try:
            for u, kw, tag in cs:
                net = pp.create_empty_network(fluid="water")
                net.user_pf_options = copy.deepcopy(u)
                u0, kw0 = copy.deepcopy(u), copy.deepcopy(kw)
                kw_pass = dict(kw)
                try:
                    ps.init_options(net, **kw_pass)
                    got = canon(net["_options"])
                except Exception as e:
                    got = "raise:" + type(e).__name__
                if net.user_pf_options != u0 or kw_pass != kw0 or ps.default_options != defaults_snapshot:
                    bad.append({"case": tag, "what": "init_options mutated one of its input layers"})
                # aliasing: the resolved dict must not share mutable state with the stored layers
                real.append((tag, numba_flag, got))
                lines.append("options %d water :: %s :: %s" % (int(numba_flag), enc_layer(u), enc_layer(kw)))
        finally:
            ps.numba_installed = saved
    out = drv.run(lines)
    for (tag, nb, got), line, o in zip(real, lines, out):
        if got != o:
            bad.append({"case": tag, "numba_installed": nb, "line": line, "real": got[:400], "model": o[:400]})
    return {"cases": len(lines), "disagreements": bad[:20],
            "stats": {"cases": len(lines), "exhaustive": True,
                      "families": {"key x presence": sum(1 for c in cs if c[2].startswith("key:")),
                                   "iter x stage keys": sum(1 for c in cs if c[2].startswith("iter:")),
                                   "couplings": sum(1 for c in cs if not c[2].startswith(("key:", "iter:")))}}}


def stored_options_history(spec, it_a, it_b):
    """resolving never mutates the stored layers, so a stored option changed between two calculations takes effect:
    store iter=a (+ an unknown key), calculate, compare the stored options and the defaults with copies taken before;
    then store iter=b and calculate again - the limit in force must be b"""
    import copy
    import pandapipes as pp
    import netgen
    from pandapipes.pf import pipeflow_setup
    fails = []
    net = netgen.build(spec)
    pp.set_user_pf_options(net, iter=it_a, my_own_key=[1, 2])
    stored_before = copy.deepcopy(dict(net.user_pf_options))
    defaults_before = copy.deepcopy(pipeflow_setup.default_options)
    pipeflow_setup.init_options(net, tol_p=1e-5)        # option resolution alone (a full pipeflow additionally stores hyd_flag)
    case = {"spec": spec, "it_u": it_a, "it_k": it_b, "layer": "history"}
    if dict(net.user_pf_options) != stored_before:
        fails.append({"fingerprint": "C14:stored-user-options-mutated", "clause": "resolving never mutates the stored user options",
                      "detail": {"before": repr(stored_before), "after": repr(dict(net.user_pf_options))}, "replay": {"case": case}})
    if pipeflow_setup.default_options != defaults_before:
        fails.append({"fingerprint": "C14:defaults-mutated", "clause": "resolving never mutates the stored defaults",
                      "detail": {"changed": sorted(k for k in defaults_before if pipeflow_setup.default_options.get(k) != defaults_before[k])},
                      "replay": {"case": case}})
        pipeflow_setup.default_options.clear()
        pipeflow_setup.default_options.update(defaults_before)
    pp.set_user_pf_options(net, iter=it_b)
    try:
        pp.pipeflow(net)
    except Exception:
        pass
    o = net["_options"]
    if o["max_iter_hyd"] != it_b or o["max_iter_therm"] != it_b or o["max_iter_bidirect"] != it_b:
        fails.append({"fingerprint": "C14:stored-iter-change-ignored", "clause": "the stored value is the one in force",
                      "detail": {"stored_iter_first": it_a, "stored_iter_second": it_b,
                                 "in_force": [o["max_iter_hyd"], o["max_iter_therm"], o["max_iter_bidirect"]]},
                      "replay": {"case": case}})
    return fails


def coupling_layers():
    """the documented coupling on the real init_options, over every placement of the two options in the two layers:
    internal data is reused iff reuse_internal_data resolves to True AND only_update_hydraulic_matrix resolves to True
    (call > user > default for each of them separately)"""
    import itertools
    import pandapipes as pp
    from pandapipes.pf import pipeflow_setup
    fails, n = [], 0
    vals = (None, False, True)           # None = not given in that layer
    for uu, uc, ru, rc in itertools.product(vals, repeat=4):
        net = pp.create_empty_network(fluid="water")
        stored = {k: v for k, v in (("only_update_hydraulic_matrix", uu), ("reuse_internal_data", ru)) if v is not None}
        if stored:
            pp.set_user_pf_options(net, **stored)
        kw = {k: v for k, v in (("only_update_hydraulic_matrix", uc), ("reuse_internal_data", rc)) if v is not None}
        pipeflow_setup.init_options(net, **kw)
        n += 1
        upd = uc if uc is not None else (uu if uu is not None else False)
        reu = rc if rc is not None else (ru if ru is not None else False)
        exp = bool(upd and reu)
        got = net["_options"]["reuse_internal_data"]
        if bool(got) != exp or bool(net["_options"]["only_update_hydraulic_matrix"]) != bool(upd):
            fails.append({"fingerprint": "C14:coupling:reuse-needs-update", "clause": "internal data is reused only together with the matrix-update option",
                          "detail": {"user": stored, "call": kw, "reuse_in_force": bool(got), "expected": exp,
                                     "update_in_force": bool(net["_options"]["only_update_hydraulic_matrix"])},
                          "replay": {"case": {"layer": "coupling"}}})
    return fails, n


def mode_layers():
    """the deprecated mode name maps to sequential wherever it comes from (stored options, call, both)"""
    import itertools
    import pandapipes as pp
    from pandapipes.pf import pipeflow_setup
    fails, n = [], 0
    default_mode = pipeflow_setup.default_options.get("mode")
    for um, cm in itertools.product((None, "all", "hydraulics", "sequential", "bidirectional"), repeat=2):
        net = pp.create_empty_network(fluid="water")
        if um is not None:
            pp.set_user_pf_options(net, mode=um)
        pipeflow_setup.init_options(net, **({"mode": cm} if cm is not None else {}))
        n += 1
        want = cm if cm is not None else (um if um is not None else default_mode)
        want = "sequential" if want == "all" else want
        got = net["_options"]["mode"]
        if got != want:
            fails.append({"fingerprint": "C14:deprecated-mode-mapping", "clause": "the deprecated mode name maps to sequential",
                          "detail": {"stored_mode": um, "call_mode": cm, "in_force": got, "expected": want},
                          "replay": {"case": {"layer": "mode"}}})
    return fails, n


def search(ctx, escalate=False):
    """observable effect on a real calculation: iteration budget and friction model actually used"""
    import pandapipes as pp
    import netgen
    fails = []
    rng = np.random.default_rng(ctx.seed)
    n = 0
    samples = []
    hashes = set()
    for trial in range(ctx.budget(12, 60)):
        spec = netgen.gen_hydraulic(rng, fluid="water", features={"p_outage": 0.0})
        it_u, it_k = int(rng.integers(1, 4)), int(rng.integers(1, 4))
        for layer in ("user", "call", "both"):
            net = netgen.build(spec)
            if layer in ("user", "both"):
                pp.set_user_pf_options(net, iter=it_u, friction_model="colebrook")
            kw = {"iter": it_k, "friction_model": "nikuradse"} if layer in ("call", "both") else {}
            try:
                pp.pipeflow(net, **kw)
            except Exception:
                pass
            n += 1
            expect_iter = it_k if layer in ("call", "both") else it_u
            expect_fm = "nikuradse" if layer in ("call", "both") else "colebrook"
            o = net["_options"]
            used = net.get("_internal_results", {}).get("iterations_hydraulics")
            hashes.add((netgen.structure_hash(spec), layer))
            if o["max_iter_hyd"] != expect_iter or o["friction_model"] != expect_fm or (used is not None and used > expect_iter):
                fails.append({"fingerprint": "C14:effect:%s" % layer, "clause": "value in force during the calculation",
                              "detail": {"layer": layer, "max_iter_hyd": o["max_iter_hyd"], "expected": expect_iter,
                                         "friction_model": o["friction_model"], "iterations_used": used},
                              "replay": {"case": {"spec": spec, "it_u": it_u, "it_k": it_k, "layer": layer}}})
            if len(samples) < 3:
                samples.append({"layer": layer, "iter_user": it_u, "iter_call": it_k, "iterations_used": used})
        f = stored_options_history(spec, it_u, it_k)
        n += 1
        fails.extend(f)
    cf, cn = coupling_layers()
    fails.extend(cf[:3])
    n += cn
    mf, mn_ = mode_layers()
    fails.extend(mf[:3])
    n += mn_
    return {"evaluations": n, "distinct_nontrivial": len(hashes) + cn, "failures": fails, "samples": samples,
            "rule": "the correspondence enumerates every option key x presence pattern, every iter/stage-key pattern of both "
                    "layers and the couplings completely (see correspondence stats); the search additionally runs real "
                    "pipeflows and checks the iteration budget / friction model in force"}


def replay(ctx, payload):
    case = payload.get("case", {})
    if case.get("layer") == "mode":
        return mode_layers()[0][:3] or None
    if case.get("layer") == "coupling":
        return coupling_layers()[0][:3] or None
    if case.get("layer") == "history":
        return stored_options_history(case["spec"], case["it_u"], case["it_k"]) or None
    return None
