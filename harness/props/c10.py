"""C10 — temperatures obey the pipe cooling law, energy-conserving mixing and fixed feeds."""
import numpy as np

import corr_assemble
import explore
import kernel_selfcheck
import netgen
import oracles

GENERATORS = ["constants", "idx", "kernels", "kernel_runner"]
ASSUMPTIONS = ["thermal clauses are evaluated on runs with tol_T=1e-7; cooling law to 1e-5 K, nodal energy balance to 1e-6 of the "
               "entering enthalpy flow, bounds to 1e-6 K",
               "heat capacities are taken from the repository's fluid library (property C19)"]


def tie(ctx):
    kbad, kstats = kernel_selfcheck.run(ctx.seed, ctx.budget(1500, 30000))
    keep = ("thermal", "makeLookups", "branchesNotZero")
    n = ctx.budget(300, 6000)
    abad, astats = corr_assemble.run(ctx.seed + 7, n, modes=("heat",))
    return {"cases": n + sum(v["inputs"] for k, v in kstats.items() if k.startswith(keep)),
            "disagreements": [b for b in kbad if b.get("kernel", "").startswith(keep)] + abad,
            "stats": {"kernels": {k: v for k, v in kstats.items() if k.startswith(keep)}, "assembly": astats}}


def gen(rng):
    r = rng.random()
    if r < 0.5:
        s = netgen.gen_heat_tree(rng)
        s["options"]["mode"] = str(rng.choice(["sequential", "bidirectional"]))
    else:
        s = netgen.gen_heat_loop(rng, with_hex=True)
    # uniform start temperature = feed temperature (start values are C08's subject)
    feeds = [e["t_k"] for e in s["ext_grids"]] + [e["t_flow_k"] for t in ("circ_pumps_p", "circ_pumps_m") for e in s[t]]
    for j in s["junctions"]:
        j["tfluid_k"] = feeds[0]
    return s


def check_net(net, spec):
    fails = []
    fluid = net.fluid
    cp = lambda t: float(fluid.get_heat_capacity(t))

    def fail(fp, clause, **detail):
        if not any(f["fingerprint"] == fp for f in fails):
            fails.append({"fingerprint": fp, "clause": clause, "detail": detail})

    tj = net.res_junction.t_k
    # ---- cooling law per pipe section -----------------------------------------------------------------
    from pandapipes.component_models.pipe_component import Pipe
    rp = net.res_pipe
    for idx in net.pipe.index:
        m = rp.at[idx, "mdot_from_kg_per_s"]
        if np.isnan(m) or abs(m) < 1e-6 or np.isnan(rp.at[idx, "t_outlet_k"]):
            continue
        p = net.pipe.loc[idx]
        n = int(p.sections)
        fj, tjn = int(p.from_junction), int(p.to_junction)
        t_in = tj.at[fj] if m > 0 else tj.at[tjn]
        temps = [t_in]
        if n > 1:
            ir = Pipe.get_internal_results(net, np.array([idx]))
            tint = list(ir["TINIT"][:, 1])
            if m < 0:
                tint = tint[::-1]
            temps += tint
        temps.append(rp.at[idx, "t_outlet_k"])
        do = (p.outer_diameter_mm if not np.isnan(p.outer_diameter_mm) else p.inner_diameter_mm) / 1000.0
        text = p.text_k
        for k in range(n):
            a, b_ = temps[k], temps[k + 1]
            c = (cp(a) + cp(b_)) / 2
            exp_out = text + (a - text) * np.exp(-p.u_w_per_m2k * np.pi * do * (p.length_km * 1000 / n) / (c * abs(m)))
            if abs(b_ - exp_out) > 1e-5:
                fail("C10:cooling-law", "exponential approach to ambient per section", pipe=int(idx), section=k, t_in=float(a),
                     reported=float(b_), expected=float(exp_out), mdot=float(m))
    # ---- mixing at junctions ---------------------------------------------------------------------------
    inflow = {}
    feeders = set()
    if oracles.has(net, "ext_grid"):
        eg = net.ext_grid
        feeders |= set(int(j) for j in eg.junction.values[eg.in_service.values])
    for tbl, fc, tc in oracles.BRANCH_COMPONENTS:
        if not oracles.has(net, tbl) or tbl == "valve" and False:
            continue
        t, r = net[tbl], net["res_" + tbl]
        for idx in t.index:
            m = r.at[idx, "mdot_from_kg_per_s"]
            if np.isnan(m) or abs(m) < 1e-7 or "t_outlet_k" not in r.columns:
                continue
            if tbl == "valve" and t.at[idx, "et"] != "ju":
                continue
            dest = int(t.at[idx, tc]) if m > 0 else int(t.at[idx, fc])
            inflow.setdefault(dest, []).append((abs(m), float(r.at[idx, "t_outlet_k"]), tbl, int(idx)))
    for tbl in ("circ_pump_pressure", "circ_pump_mass"):
        if oracles.has(net, tbl):
            feeders |= set(int(j) for j in net[tbl].flow_junction.values)
    tmin = tmax = None
    for j, streams in inflow.items():
        if j in feeders or np.isnan(tj.at[j]):
            continue
        tn = float(tj.at[j])
        num = sum(mm * (cp(to) + cp(tn)) / 2 * (to - tn) for mm, to, _, _ in streams)
        den = sum(mm * (cp(to) + cp(tn)) / 2 * max(abs(to - tn), 1.0) for mm, to, _, _ in streams)
        if abs(num) > 1e-6 * den:
            fail("C10:mixing", "junction temperature = mean-cp weighted mix of entering streams", junction=int(j), t_junction=tn,
                 imbalance_w=float(num), streams=[(round(mm, 6), round(to, 6), tb) for mm, to, tb, _ in streams][:4])
    # ---- imposed feeds -----------------------------------------------------------------------------------
    if oracles.has(net, "ext_grid"):
        eg, r = net.ext_grid, net.res_ext_grid
        for idx in eg.index:
            j = int(eg.at[idx, "junction"])
            if eg.at[idx, "in_service"] and eg.at[idx, "type"] in ("t", "pt") and not np.isnan(tj.at[j]):
                same = eg[(eg.junction == j) & eg.in_service & eg.type.isin(["t", "pt"])]
                if r.at[idx, "mdot_kg_per_s"] < -1e-9 and j not in inflow:
                    if abs(tj.at[j] - same.t_k.mean()) > 1e-6:
                        fail("C10:feed-temperature", "feeder imposes its temperature", junction=j, reported=float(tj.at[j]),
                             feed=float(same.t_k.mean()))
    for tbl in ("circ_pump_pressure", "circ_pump_mass"):
        if oracles.has(net, tbl):
            t, r = net[tbl], net["res_" + tbl]
            for idx in t.index:
                if t.at[idx, "in_service"] and not np.isnan(r.at[idx, "mdot_from_kg_per_s"]):
                    j = int(t.at[idx, "flow_junction"])
                    if abs(tj.at[j] - t.at[idx, "t_flow_k"]) > 1e-6 and j not in inflow or (
                            j in inflow and all(tb.startswith("circ_pump") for _, _, tb, _ in inflow[j])
                            and abs(tj.at[j] - t.at[idx, "t_flow_k"]) > 1e-6):
                        fail("C10:pump-feed-temperature", "circulation pump imposes its flow temperature", junction=j,
                             reported=float(tj.at[j]), feed=float(t.at[idx, "t_flow_k"]))
    # ---- bounds (no heat sources) --------------------------------------------------------------------------
    # a negative duty or a negative temperature difference is a heat source (the fluid leaves warmer than it entered)
    sources = any((e["qext_w"] or 0) < 0 or (e.get("deltat_k") or 0) < 0 for e in spec["heat_consumers"]) or \
        any(e["qext_w"] < 0 for e in spec["heat_exchangers"])
    # lumped heat extraction (a consumer's or exchanger's prescribed duty / temperature drop / return temperature) can cool
    # the fluid below the coldest feed and ambient temperature: the lower bound is a statement about pipes only
    sinks = any((e["qext_w"] or 0) > 0 or (e.get("deltat_k") or 0) > 0 or e.get("treturn_k") is not None
                for e in spec["heat_consumers"] if e["in_service"]) or any(e["qext_w"] > 0 for e in spec["heat_exchangers"] if e["in_service"])
    if not sources:
        amb = [p["text_k"] for p in spec["pipes"]] + [net["_options"]["ambient_temperature"]]
        feeds = [e["t_k"] for e in spec["ext_grids"] if e["in_service"]] + [e["t_flow_k"] for t in ("circ_pumps_p", "circ_pumps_m")
                                                                               for e in spec[t] if e["in_service"]]
        lo, hi = min(amb + feeds), max(amb + feeds)
        vals = tj.values[~np.isnan(tj.values)]
        if len(vals) and ((not sinks and vals.min() < lo - 1e-6) or vals.max() > hi + 1e-6):
            fail("C10:bounds", "temperatures between coldest and warmest of feed and ambient", lo=lo, hi=hi,
                 tmin=float(vals.min()), tmax=float(vals.max()))
    return fails


def oracle(spec):
    net, e = netgen.try_run(spec, **oracles.TIGHT)
    if e is not None:
        return {"status": "skip:" + type(e).__name__}
    fails = check_net(net, spec)
    return {"status": "ok", "failures": fails, "hash": netgen.structure_hash(spec), "nontrivial": True,
            "tags": [spec["options"]["mode"], "numba" if spec["options"].get("use_numba") else "numpy"],
            "sample": netgen.summarize(spec)}


def search(ctx, escalate=False):
    n = ctx.budget(200, 5000)
    if escalate:
        n = max(n, 1200)
    agg = explore.explore(ctx.seed, n, gen, oracle)
    agg["rule"] = ("heating trees with meshes and heating loops (1-6 consumers, exchangers, reverse-declared pipes, 1-4 sections, "
                   "U 0..10 W/m2K), modes sequential and bidirectional, numba on/off: cooling law per section (internal section "
                   "temperatures), mean-cp energy balance at every junction with entering streams, imposed feed temperatures, bounds")
    return agg


def replay(ctx, payload):
    explore.warm_up()
    return oracle(payload["case"]).get("failures") or None
