"""C12 — pipeflow is a pure, repeatable function of the network description."""
import copy

import numpy as np
import pandas as pd

import explore
import netgen
import oracles

GENERATORS = ["rwsets"]
ASSUMPTIONS = ["the static access sequence over-approximates the executions of pipeflow with transient=False and "
               "reuse_internal_data=False (both documented opt-ins outside this property)",
               "bit-repeatability assumes deterministic numpy / SuperLU (single threaded), checked by the search only"]
MODES = ["hydraulics", "sequential", "bidirectional", "heat"]


def tie(ctx):
    """cross-check of the static scan against a dynamic trace: every internal key the real run touches first by a read must
    be one the static sequence also reads first (the static list may contain more)"""
    import json
    import os
    from common import GEN_DIR
    meta = json.load(open(os.path.join(GEN_DIR, "meta.json")))["rwsets"]["events"]
    static_keys = {e[1] for e in meta if e[1]}
    bad = []
    explore.warm_up()
    import pandapipes as pp
    rng = np.random.default_rng([ctx.seed, 12])
    cases = 0
    for _ in range(ctx.budget(6, 40)):
        spec = netgen.gen_heat_tree(rng)
        net = netgen.build(spec)
        first = {}
        orig_get, orig_set = type(net).__getitem__, type(net).__setitem__

        class Spy(type(net)):
            def __getitem__(self, k):
                if isinstance(k, str) and k.startswith("_") and k not in first:
                    first[k] = "R"
                return orig_get(self, k)

            def __setitem__(self, k, v):
                if isinstance(k, str) and k.startswith("_") and k not in first:
                    first[k] = "W"
                return orig_set(self, k, v)
        object.__setattr__(net, "__class__", Spy)
        for stale in ("_pit", "_lookups", "_options", "_active_pit", "_internal_results"):
            first.pop(stale, None)
        try:
            pp.pipeflow(net, **spec["options"])
        except Exception:
            pass
        cases += 1
        for k, kind in first.items():
            if k in ("_ppc", "_is_elements", "_fluid") or not k.startswith("_"):
                continue
            if kind == "R" and k in static_keys:
                bad.append({"what": "dynamic trace reads internal key first", "key": k})
            if k not in static_keys and k in ("_pit", "_lookups", "_options", "_active_pit", "_old_pit", "_internal_data",
                                              "_internal_results", "_active_old_pit"):
                bad.append({"what": "static scan misses key", "key": k})
    return {"cases": cases, "disagreements": bad[:5], "stats": {"static_events": len(meta), "dynamic_runs": cases}}


def gen(rng):
    r = rng.random()
    if r < 0.4:
        s = netgen.gen_hydraulic(rng, fluid="water" if rng.random() < 0.7 else None)
    elif r < 0.7:
        s = netgen.gen_heat_tree(rng)
    else:
        s = netgen.gen_heat_loop(rng)
    thermal_ok = s["fluid"] == "water"
    hist = []
    for _ in range(int(rng.integers(2, 6))):
        step = {"mode": str(rng.choice(MODES if thermal_ok else ["hydraulics"])),
                "numba": bool(rng.random() < 0.5), "fm": str(rng.choice(["nikuradse", "colebrook", "swamee-jain"])),
                "fail": str(rng.choice(["no", "no", "no", "budget", "loads"])), "edit": bool(rng.random() < 0.4),
                "nonlinear_method": str(rng.choice(["constant", "automatic"])),
                # matrix-update option (its cache must not outlive the call unless reuse_internal_data is requested) and a
                # structural edit that is undone after the call
                "update": bool(rng.random() < 0.35), "toggle_pipe": bool(rng.random() < 0.25)}
        hist.append(step)
    stored = {}
    if rng.random() < 0.5:
        # options stored on the net by the user (set_user_pf_options) are inputs too
        pool = [("iter", 70), ("iter", 45), ("tol_res", 1e-4), ("ambient_temperature", 288.15), ("my_own_key", "x"),
                ("max_iter_colebrook", 120), ("tol_p", 1e-5)]
        for i in rng.permutation(len(pool))[:int(rng.integers(1, 4))]:
            stored[pool[int(i)][0]] = pool[int(i)][1]
    s["c12"] = {"history": hist, "final_mode": str(rng.choice(MODES[:3] if thermal_ok else ["hydraulics"])),
                "nan_outer": bool(rng.random() < 0.5), "stored_options": stored, "final_update": bool(rng.random() < 0.4)}
    return s


def snapshot(net):
    snap = {}
    for k in net.keys():
        if k.startswith("_") or k.startswith("res_") or k == "converged":
            continue
        v = net[k]
        if isinstance(v, pd.DataFrame):
            snap[k] = v.copy(deep=True)
        elif k in ("user_pf_options",):
            snap[k] = copy.deepcopy(dict(v))
        elif k in ("fluid", "std_types"):
            import pickle
            snap[k] = pickle.dumps(v)
    return snap


def diff_snapshots(a, b):
    """all differences (one label per table column / per stored-option key)"""
    out = []
    for k in a:
        if isinstance(a[k], dict):
            for kk in sorted(set(a[k]) | set(b.get(k, {}))):
                if kk not in a[k] or kk not in b.get(k, {}) or a[k][kk] != b[k][kk]:
                    out.append("%s:%s" % (k, kk))
            continue
        if isinstance(a[k], bytes):
            if a[k] != b.get(k):
                out.append(k)
            continue
        d = _diff_table(a, b, k)
        if d:
            out.append(d)
    return out


def _diff_table(a, b, k):
    if True:
        if isinstance(a[k], pd.DataFrame):
            if not (a[k].shape == b[k].shape and list(a[k].columns) == list(b[k].columns)):
                return k + ":shape"
            for c in a[k].columns:
                x, y = a[k][c].values, b[k][c].values
                try:
                    same = np.array_equal(x, y, equal_nan=True)
                except TypeError:
                    same = all((p == q) or (p != p and q != q) for p, q in zip(x, y))
                if not same:
                    return "%s.%s" % (k, c)
    return None


def bit_equal(net_a, net_b):
    for t in oracles.res_tables(net_a):
        if t not in net_b:
            return t
        a, b = net_a[t], net_b[t]
        if a.shape != b.shape:
            return t + ":shape"
        for c in a.columns:
            x, y = a[c].values.astype(float), b[c].values.astype(float)
            if not np.array_equal(x, y, equal_nan=True):
                k = int(np.flatnonzero(~((x == y) | (np.isnan(x) & np.isnan(y))))[0])
                return "%s.%s[%d]: %r vs %r" % (t, c, k, x[k], y[k])
    return None


def oracle(spec):
    import pandapipes as pp
    v = spec["c12"]
    net = netgen.build(spec)
    if v["nan_outer"] and len(net.pipe):
        net.pipe["outer_diameter_mm"] = np.nan
    if v.get("stored_options"):
        pp.set_user_pf_options(net, **v["stored_options"])
    fresh0 = copy.deepcopy(net)
    fails = []
    opts0 = {k: w for k, w in spec["options"].items() if k not in ("mode", "use_numba", "friction_model", "nonlinear_method")}
    if "iter" in v.get("stored_options", {}):
        opts0 = {k: w for k, w in opts0.items() if not k.startswith("max_iter_")}   # let the stored shorthand take effect
    tags = []
    for step in v["history"]:
        before = snapshot(net)
        kw = dict(opts0, mode=step["mode"], use_numba=step["numba"], friction_model=step["fm"],
                  nonlinear_method=step["nonlinear_method"])
        if step["fm"] == "colebrook":
            kw["max_iter_colebrook"] = 100
        undo = None
        if step["fail"] == "budget":
            kw.update(max_iter_hyd=1, max_iter_therm=1, max_iter_bidirect=1)
        if step.get("update"):
            kw["only_update_hydraulic_matrix"] = True
        undo2 = None
        if step.get("toggle_pipe") and len(net.pipe) > 1:
            pi = net.pipe.index[len(net.pipe) // 2]
            oldv = bool(net.pipe.at[pi, "in_service"])
            net.pipe.at[pi, "in_service"] = not oldv
            undo2 = lambda pi=pi, oldv=oldv: net.pipe.__setitem__("in_service", net.pipe.in_service.where(net.pipe.index != pi, oldv))
            before = snapshot(net)
        if step["fail"] == "loads" and len(net.sink):
            old = net.sink.mdot_kg_per_s.values.copy()
            net.sink["mdot_kg_per_s"] = old * 1e4
            undo = lambda: net.sink.__setitem__("mdot_kg_per_s", old)
            before = snapshot(net)
        if step["edit"] and len(net.junction):
            # an edit that is undone before the next call
            oldp = net.junction.pn_bar.values.copy()
            net.junction["pn_bar"] = oldp * 1.7
            net.junction["pn_bar"] = oldp
        try:
            pp.pipeflow(net, **kw)
            tags.append("ok")
        except Exception as e:
            tags.append(type(e).__name__)
        for d in diff_snapshots(before, snapshot(net)):
            fails.append({"fingerprint": "C12:input-mutated:%s" % d, "clause": "a calculation never modifies user inputs",
                          "detail": {"what": d, "mode": step["mode"]}})
        if undo:
            undo()
        if undo2:
            undo2()
    # final run on the used net vs. the same run on an untouched copy
    kw = dict(opts0, mode=v["final_mode"], use_numba=True, friction_model="nikuradse", nonlinear_method="constant")
    if v.get("final_update"):
        kw["only_update_hydraulic_matrix"] = True
    ea = eb = None
    try:
        pp.pipeflow(net, **kw)
    except Exception as e:
        ea = e
    fresh = copy.deepcopy(fresh0)
    try:
        pp.pipeflow(fresh, **kw)
    except Exception as e:
        eb = e
    if type(ea) is not type(eb):
        fails.append({"fingerprint": "C12:history-changes-outcome", "clause": "results independent of what was calculated before",
                      "detail": {"used_net": repr(ea), "fresh_copy": repr(eb), "history": tags}})
    elif ea is None:
        d = bit_equal(net, fresh)
        if d:
            fails.append({"fingerprint": "C12:history-changes-results", "clause": "results independent of what was calculated before",
                          "detail": {"first_difference": d, "history": tags, "final_mode": v["final_mode"]}})
        # repeat: bit-identical
        again = copy.deepcopy(fresh0)
        pp.pipeflow(again, **kw)
        d = bit_equal(fresh, again)
        if d:
            fails.append({"fingerprint": "C12:not-repeatable", "clause": "repeating gives bit-identical results",
                          "detail": {"first_difference": d}})
        # heat from stored hydraulic solution = sequential
        if v["final_mode"] == "sequential":
            h = copy.deepcopy(fresh0)
            try:
                from pandapipes.idx_node import PINIT
                from pandapipes.idx_branch import MDOTINIT
                pp.pipeflow(h, **dict(kw, mode="hydraulics"))
                u = np.concatenate((h._pit["node"][:, PINIT], h._pit["branch"][:, MDOTINIT]))
                pp.pipeflow(h, sol_vec=u, **dict(kw, mode="heat"))
                # the same thermal-only run on the net that carries the whole history, with another calculation between the
                # hydraulic run and the thermal one: every result table must equal the fresh net's (the thermal-only run's
                # results must not depend on what was calculated before)
                pp.pipeflow(net, **dict(kw, mode="hydraulics"))
                u2 = np.concatenate((net._pit["node"][:, PINIT], net._pit["branch"][:, MDOTINIT]))
                if len(net.sink):
                    olds = net.sink.mdot_kg_per_s.values.copy()
                    net.sink["mdot_kg_per_s"] = olds * 0.7
                    try:
                        pp.pipeflow(net, **dict(kw, mode="sequential"))
                    except Exception:
                        pass
                    net.sink["mdot_kg_per_s"] = olds
                pp.pipeflow(net, sol_vec=u2, **dict(kw, mode="heat"))
                dd = bit_equal(net, h)
                if dd:
                    fails.append({"fingerprint": "C12:heat-only-run-depends-on-history", "clause": "results independent of what was calculated before",
                                  "detail": {"first_difference": dd}})
                # mode="heat" reports thermal results only: compare the temperatures
                for t in oracles.res_tables(fresh):
                    keep = [c for c in fresh[t].columns if c in ("t_k", "t_from_k", "t_to_k", "t_outlet_k")]
                    fresh[t] = fresh[t][keep]
                    h[t] = h[t][keep]
                d = oracles.compare_results(fresh, h, atol=1e-9, rtol=1e-9)
                if d:
                    fails.append({"fingerprint": "C12:heat-after-hydraulics:%s:%s" % (d[0][0], d[0][1]),
                                  "clause": "thermal-only run from stored hydraulics = sequential run", "detail": {"first": d[:3]}})
            except Exception as e:
                fails.append({"fingerprint": "C12:heat-after-hydraulics:raises", "clause": "thermal-only run from stored hydraulics",
                              "detail": {"exc": repr(e)[:200]}})
    return {"status": "ok", "failures": fails, "hash": netgen.structure_hash(spec) + "".join(t[0] for t in tags),
            "nontrivial": len(set(tags)) > 1 or len({s["mode"] for s in v["history"]}) > 1, "tags": tags,
            "sample": {"net": netgen.summarize(spec), "history": [(s["mode"], s["fail"]) for s in v["history"]], "outcomes": tags}}


def search(ctx, escalate=False):
    n = ctx.budget(120, 3000)
    if escalate:
        n = max(n, 800)
    agg = explore.explore(ctx.seed, n, gen, oracle)
    agg["rule"] = ("histories of 2-5 pipeflow calls (all four modes, engines, friction models, damping, failing runs by budget or "
                   "infeasible loads, edits that are undone) on one net object; after each call all non-underscore entries are "
                   "compared with a snapshot; a final run is compared bit for bit with the same run on an untouched copy and with a "
                   "repetition; heat-after-hydraulics vs sequential")
    return agg


def replay(ctx, payload):
    explore.warm_up()
    return oracle(payload["case"]).get("failures") or None
