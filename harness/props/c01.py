"""C01 — mass conservation at every supplied junction and globally."""
import numpy as np

import corr_assemble
import explore
import kernel_selfcheck
import netgen
import oracles

GENERATORS = ["constants", "idx", "kernels", "kernel_runner"]
ASSUMPTIONS = [
    "theorems are over exact arithmetic; the oracle tolerance 1e-9*(1+sum|mdot|) is >1e4 x the clean-tree noise "
    "(<=3e-14) and far below the effect of an index/sign slip (>=1e-3)",
    "spsolve is assumed to return a solution of J x = eps up to round-off",
]
TOL = 1e-9


def tie(ctx):
    n = ctx.budget(300, 6000)
    bad, stats = corr_assemble.run(ctx.seed, n, modes=("hyd",))
    kbad, kstats = kernel_selfcheck.run(ctx.seed, ctx.budget(1500, 30000))
    kbad = [b for b in kbad if b.get("kernel", "").startswith("hyd")]
    return {"cases": n + sum(v["inputs"] for k, v in kstats.items() if k.startswith("hyd")),
            "disagreements": bad + kbad,
            "stats": {"assembly": stats, "kernels": {k: v for k, v in kstats.items() if k.startswith("hyd")}}}


def gen(rng):
    r = rng.random()
    if 0.69 <= r < 0.75:
        # a directed branch (pressure controller) whose inlet side is cut off while its outlet side is supplied: no flow may
        # appear at or disappear from the supplied junctions
        from props import c04
        return c04.gen_directed(rng)
    if r < 0.75:
        return netgen.gen_hydraulic(rng)
    if r < 0.9:
        s = netgen.gen_heat_loop(rng, makeup=bool(rng.random() < 0.6))
        s["options"]["mode"] = "hydraulics"
        return s
    s = netgen.gen_heat_tree(rng)
    if rng.random() < 0.6:
        # a short transient sequence (what run_timeseries(..., transient=True) issues): the internal tables are re-used from
        # step to step while the loads change
        s["c01_transient"] = [float(x) for x in rng.uniform(0.6, 1.4, int(rng.integers(2, 5)))]
    return s


def check_net(net, spec):
    fails = []
    imb, scale, supplied, nan_at = oracles.node_balance(net)
    slack_j = set()
    if oracles.has(net, "ext_grid"):
        eg = net.ext_grid
        slack_j |= set(int(j) for j in eg.junction.values[eg.in_service.values & np.isin(eg.type.values, ["p", "pt"])])
    tol_m = float(net["_options"].get("tol_m", 1e-5))
    automatic = net["_options"].get("nonlinear_method") == "automatic"
    seen = set()
    for j in sorted(supplied):
        if abs(imb[j]) > TOL * (1.0 + scale[j]):
            if j in slack_j and automatic and abs(imb[j]) <= tol_m:
                # the per-variable step rejection of the automatic damping restored the slack mass in the
                # accepted iteration: reported ext-grid flow is stale by less than tol_m (known finding)
                fp = "C01:slack-imbalance-below-tol_m:automatic-damping"
            elif j in slack_j:
                fp = "C01:nodal-imbalance:pressure-fixing-junction"
            else:
                fp = "C01:nodal-imbalance"
            if fp in seen:
                continue
            seen.add(fp)
            fails.append({"fingerprint": fp, "clause": "nodal balance",
                          "detail": {"junction": j, "imbalance": imb[j], "sum_abs_flows": scale[j],
                                     "nonlinear_method": net["_options"].get("nonlinear_method")}})
    # every branch element: what leaves at one end enters at the other
    for tbl, fc, tc in oracles.BRANCH_COMPONENTS:
        if not oracles.has(net, tbl):
            continue
        res = net["res_" + tbl]
        a, b_ = res.mdot_from_kg_per_s.values, res.mdot_to_kg_per_s.values
        ok = np.isnan(a) & np.isnan(b_) | (np.abs(a + b_) <= TOL * (1 + np.abs(a)))
        if not ok.all():
            fails.append({"fingerprint": "C01:branch-ends:%s" % tbl, "clause": "mdot_from = -mdot_to",
                          "detail": {"table": tbl, "rows": [int(i) for i in np.flatnonzero(~ok)[:3]]}})
    # junction-pipe valve carries the flow of the pipe end it sits on
    for vi, j, p, side in oracles.pipe_valve_info(net):
        fv = net.res_valve.at[vi, "mdot_from_kg_per_s"]
        fp = net.res_pipe.at[p, "mdot_from_kg_per_s" if side == "from" else "mdot_to_kg_per_s"]
        if np.isnan(fv) and (np.isnan(fp) or abs(fp) <= TOL):
            continue          # closed / unsupplied valve: the pipe end carries nothing
        if np.isnan(fp) and abs(fv) <= TOL:
            continue          # pipe out of service / unsupplied: the open valve ends in a dead node and carries nothing
        if np.isnan(fv) != np.isnan(fp) or abs(fv - fp) > TOL * (1 + abs(fv)):
            fails.append({"fingerprint": "C01:pipe-valve-flow", "clause": "pipe valve flow = pipe end flow",
                          "detail": {"valve": int(vi), "pipe": int(p), "valve_flow": fv, "pipe_flow": fp}})
    feed, cons, inj = oracles.total_flows(net)
    if abs(feed - cons + inj) > TOL * (1 + abs(feed) + abs(cons) + abs(inj)) and not any(
            f["fingerprint"].startswith("C01:slack-imbalance") for f in fails) and not (
            oracles.has(net, "circ_pump_mass") or oracles.has(net, "circ_pump_pressure")):
        fails.append({"fingerprint": "C01:global-balance", "clause": "feed-in = consumption - injection",
                      "detail": {"feed_in": feed, "consumption": cons, "injection": inj}})
    return fails


def transient_sequence(spec):
    import pandapipes as pp
    net = netgen.build(spec)
    base = net.sink.mdot_kg_per_s.values.copy() if len(net.sink) else None
    fails = []
    opts = {k: v for k, v in spec["options"].items()}
    for step, f in enumerate(spec["c01_transient"]):
        if base is not None:
            net.sink["mdot_kg_per_s"] = base * f
        try:
            pp.pipeflow(net, **dict(opts, mode="sequential", transient=True, dt=60.0, simulation_time_step=step))
        except Exception as e:
            return None, type(e).__name__
        for fl in check_net(net, spec):
            fl["fingerprint"] += ":transient-step"
            fl.setdefault("detail", {})["step"] = step
            fails.append(fl)
        if fails:
            break
    return fails, None


def oracle(spec):
    from pandapipes.pf.pipeflow_setup import PipeflowNotConverged
    if spec.get("c01_transient"):
        fails, err = transient_sequence(spec)
        if err is not None:
            return {"status": "skip:transient:" + err}
        return {"status": "ok", "failures": fails, "hash": netgen.structure_hash(spec) + "T%d" % len(spec["c01_transient"]),
                "nontrivial": True, "tags": ["liquid", "transient"], "sample": dict(netgen.summarize(spec), transient_steps=len(spec["c01_transient"]))}
    net, e = netgen.try_run(spec)
    if e is not None:
        return {"status": "skip:" + type(e).__name__}
    fails = check_net(net, spec)
    return {"status": "ok", "failures": fails, "hash": netgen.structure_hash(spec), "nontrivial": netgen.nontrivial(spec),
            "tags": ["gas" if spec["fluid"] != "water" else "liquid", spec["options"].get("friction_model", "-"),
                     "numba" if spec["options"].get("use_numba") else "numpy"],
            "sample": netgen.summarize(spec)}


def search(ctx, escalate=False):
    n = ctx.budget(240, 6000)
    if escalate:
        n = max(n, 1500)
    agg = explore.explore(ctx.seed, n, gen, oracle)
    agg["rule"] = ("random supply nets (tree+chords+parallel branches, all node/branch components, outages, label styles, "
                   "water and 4 gases, 3 friction models, numba on/off, both damping methods) plus heating loops/trees; "
                   "non-trivial = returned run on a net with a loop or >=2 branch component kinds; distinct = structural hash")
    return agg


def replay(ctx, payload):
    explore.warm_up()
    res = oracle(payload["case"])
    return res.get("failures") or None
