"""C15 — saving and loading a network loses nothing."""
import copy
import os
import tempfile

import numpy as np
import pandas as pd

import explore
import netgen
import oracles
from common import LeanDriver

GENERATORS = []
ASSUMPTIONS = ["pandas / pandapower table (de)serialisation is library code: its round-trip law is a hypothesis of the codec "
               "theorems and is exercised on every generated net",
               "pandas' JSON writer (used by pandapower's encoder with double_precision=15, its maximum) keeps 15 decimal places: on "
               "the JSON paths float cells are accepted within 5e-16 absolute / 1e-15 relative; on the pickle path they must be "
               "bit-identical"]
PATHS = ["json_string", "json_file", "json_encrypted", "pickle"]


def roundtrip(net, path_kind, multinet=False):
    import pandapipes as pp
    from pandapipes.io import file_io
    if path_kind == "json_string":
        s = pp.to_json(net, filename=None)
        return pp.from_json_string(s)
    d = tempfile.mkdtemp(prefix="ppv_c15_")
    try:
        if path_kind == "json_file":
            f = os.path.join(d, "n.json")
            pp.to_json(net, f)
            return pp.from_json(f)
        if path_kind == "json_encrypted":
            f = os.path.join(d, "n.json")
            pp.to_json(net, f, encryption_key="verif-key")
            return pp.from_json(f, encryption_key="verif-key")
        f = os.path.join(d, "n.p")
        pp.to_pickle(net, f)
        return pp.from_pickle(f)
    finally:
        import shutil
        shutil.rmtree(d, ignore_errors=True)


def table_diff(a, b, float_tol=0.0):
    if list(a.columns) != list(b.columns):
        return "columns %s vs %s" % (list(a.columns)[:6], list(b.columns)[:6])
    if list(a.index) != list(b.index):
        return "index %s vs %s" % (list(a.index)[:6], list(b.index)[:6])
    if str(a.index.dtype) != str(b.index.dtype) and len(a):
        return "index dtype %s vs %s" % (a.index.dtype, b.index.dtype)
    for c in a.columns:
        if str(a[c].dtype) != str(b[c].dtype) and len(a):
            return "dtype of %s: %s vs %s" % (c, a[c].dtype, b[c].dtype)
        x, y = a[c].tolist(), b[c].tolist()
        for p, q in zip(x, y):
            same = (p == q) or (p is None and q is None) or (
                isinstance(p, float) and isinstance(q, float) and abs(p - q) <= float_tol * max(abs(p), abs(q), 0.5)) or (isinstance(p, float) and isinstance(q, float) and p != p and q != q) \
                or (p is None and isinstance(q, float) and q != q) or (q is None and isinstance(p, float) and p != p)
            if not same:
                return "cell of %s: %r vs %r" % (c, p, q)
    return None


def prop_integral(p, lo, hi):
    """integral of a property between two temperatures, or the kind of refusal"""
    try:
        return ("val", np.asarray(p.get_at_integral_value(hi, lo), float).tolist())
    except Exception as e:
        return ("exc", type(e).__name__)


def fluid_diff(fa, fb, rng):
    if fa.name != fb.name or fa.fluid_type != fb.fluid_type:
        return "name/type"
    if sorted(fa.all_properties) != sorted(fb.all_properties):
        return "property set %s vs %s" % (sorted(fa.all_properties), sorted(fb.all_properties))
    for k in fa.all_properties:
        pa, pb = fa.all_properties[k], fb.all_properties[k]
        if type(pa) is not type(pb):
            return "class of %s: %s vs %s" % (k, type(pa).__name__, type(pb).__name__)
        xs = rng.uniform(260, 400, 5)
        try:
            va = np.asarray(pa.get_at_value(xs), float)
            vb = np.asarray(pb.get_at_value(xs), float)
        except Exception as e:
            return "property %s (%s) not usable after loading: %r" % (k, type(pa).__name__, e)
        if not np.array_equal(va, vb):
            return "values of %s" % k
        lo, hi = rng.uniform(275, 300, 3), rng.uniform(305, 345, 3)
        if prop_integral(pa, lo, hi) != prop_integral(pb, lo, hi):
            return "integral of %s (%s)" % (k, type(pa).__name__)
        da, db = stored_fields(pa), stored_fields(pb)
        if da != db:
            bad = sorted(f for f in set(da) | set(db) if da.get(f) != db.get(f))
            return "stored field %s of %s (%s): %r vs %r" % (bad[0], k, type(pa).__name__, da.get(bad[0]), db.get(bad[0]))
    return None


def stored_fields(p):
    """the fields a property class stores (its own to_dict), values normalised for comparison"""
    out = {}
    for k, v in p.to_dict().items():
        if k.startswith("@"):
            continue
        try:
            out[k] = np.asarray(v, float).round(15).tolist()
        except Exception:
            out[k] = repr(v)
    return out


def gen(rng):
    r = rng.random()
    if r < 0.5:
        s = netgen.gen_hydraulic(rng, n_junc=int(rng.integers(2, 10)))
    elif r < 0.75:
        s = netgen.gen_heat_loop(rng)
    else:
        s = netgen.gen_heat_tree(rng)
    s["c15"] = {"path": str(rng.choice(PATHS)), "with_results": bool(rng.random() < 0.5), "custom": str(rng.choice(
        ["none", "none", "column", "fluid_const", "fluid_linear", "fluid_poly", "pump_type", "user_options", "controller", "nan_none"])),
        "seed": int(rng.integers(0, 2 ** 31))}
    if rng.random() < 0.4:
        # a net created for one sector only (restricted component list); falls back to the default if the generated net
        # holds a component the sector does not admit
        s["sector"] = "gas" if s["fluid"] != "water" else str(rng.choice(["heat", "water", "heat"]))
    return s


def customise(net, kind, rng):
    import pandapipes as pp
    if kind == "column" and len(net.junction):
        net.junction["my_note"] = ["n%d" % i for i in range(len(net.junction))]
        net.junction["my_number"] = rng.uniform(0, 1, len(net.junction))
    elif kind == "fluid_const":
        from pandapipes.properties.fluids import FluidPropertyConstant
        net.fluid.add_property("my_const", FluidPropertyConstant(3.25, warn_dependent_variables=bool(rng.random() < 0.6)))
    elif kind == "fluid_linear":
        pp.create_linear_property(net, "my_linear", 0.5, 2.0)
    elif kind == "fluid_poly":
        from pandapipes.properties.fluids import FluidPropertyPolynominal
        net.fluid.add_property("my_poly", FluidPropertyPolynominal([280.0, 300.0, 320.0, 340.0], [1.0, 1.4, 2.1, 3.3], 2))
    elif kind == "pump_type":
        j = list(net.junction.index)
        if len(j) >= 2:
            pp.create_pump_from_parameters(net, j[0], j[1], "verif_pump", [6.1, 5.8, 4.0], [0, 19, 83], 2, in_service=False)
    elif kind == "user_options":
        pp.set_user_pf_options(net, friction_model="colebrook", max_iter_hyd=37, tol_p=1e-6)
    elif kind == "controller" and len(net.sink):
        import pandapower.control as control
        from pandapower.timeseries import DFData
        prof = pd.DataFrame({"0": [0.1, 0.2, 0.3]})
        control.ConstControl(net, element="sink", variable="mdot_kg_per_s", element_index=[net.sink.index[0]],
                             data_source=DFData(prof), profile_name=["0"])
    elif kind == "nan_none" and len(net.pipe):
        net.pipe.loc[net.pipe.index[0], "name"] = None
        net.pipe["outer_diameter_mm"] = np.nan


def oracle(spec):
    import pandapipes as pp
    from pandapipes.toolbox import nets_equal
    v = spec["c15"]
    rng = np.random.default_rng(v["seed"])
    try:
        net = netgen.build(spec)
    except Exception:
        if not spec.get("sector"):
            raise
        spec = dict(spec, sector=None)
        net = netgen.build(spec)
    customise(net, v["custom"], rng)
    if v["with_results"]:
        try:
            netgen.run(net, spec)
        except Exception:
            pass
    fails = []

    def fail(fp, clause, **detail):
        if not any(f["fingerprint"] == fp for f in fails):
            fails.append({"fingerprint": fp, "clause": clause, "detail": detail})

    try:
        loaded = roundtrip(net, v["path"])
    except Exception as e:
        fail("C15:roundtrip-raises:%s:%s" % (v["path"].split("_")[0], v["custom"]), "write and read back", exc=repr(e)[:200], path=v["path"])
        return {"status": "ok", "failures": fails, "hash": netgen.structure_hash(spec) + v["path"] + v["custom"]}
    # element and result tables
    for k in sorted(net.keys()):
        if k.startswith("_"):
            continue
        a = net[k]
        if isinstance(a, pd.DataFrame):
            if k not in loaded or not isinstance(loaded[k], pd.DataFrame):
                fail("C15:table-missing:%s" % k, "all tables present", path=v["path"])
                continue
            if k == "controller":
                if len(a) != len(loaded[k]):
                    fail("C15:controller-count", "controllers survive", path=v["path"])
                continue
            # pandas writes JSON floats with 15 significant digits (library behaviour); pickle is exact
            d = table_diff(a, loaded[k], 0.0 if v["path"] == "pickle" else 2e-15)
            if d and "inf vs nan" in d:
                fail("C15:inf-becomes-nan:%s.%s" % (k, d.split(":")[0].replace("cell of ", "")), "tables equal", table=k,
                     difference=d, path=v["path"])
            elif d:
                fail("C15:table:%s:%s" % (k if not k.startswith("res_") else "res", d.split(":")[0].split(" ")[0]),
                     "tables equal incl. dtypes and indices", table=k, difference=d, path=v["path"], custom=v["custom"])
    extra = sorted(k for k in loaded.keys() if not k.startswith("_") and isinstance(loaded[k], pd.DataFrame) and k not in net)
    if extra:
        fail("C15:extra-table", "all element tables equal (none added)", added=extra[:6], path=v["path"], sector=str(net.sector))
    if net.fluid is not None:
        d = fluid_diff(net.fluid, loaded.fluid, rng)
        if d:
            fail("C15:fluid:%s" % d.split(" ")[0].split(":")[0] + (":" + v["custom"] if v["custom"].startswith("fluid") else ""),
                 "fluid with all its properties", difference=d, path=v["path"])
    if [c.__name__ for c in net.component_list] != [c.__name__ for c in loaded.component_list]:
        fail("C15:component-list", "component list", path=v["path"])
    if net.name != loaded.name:
        fail("C15:name", "name", path=v["path"])
    if net.sector != loaded.sector:        # Sector is a StrEnum: the loaded plain string compares equal to the member
        fail("C15:sector", "sector", original=repr(net.sector), loaded=repr(loaded.sector), path=v["path"])
    ua = {k: w for k, w in net.get("user_pf_options", {}).items()}
    ub = {k: w for k, w in loaded.get("user_pf_options", {}).items()}
    if ua != ub:
        fail("C15:user-options", "user options", original=str(ua)[:100], loaded=str(ub)[:100], path=v["path"])
    for t in net.std_types:
        if sorted(net.std_types[t]) != sorted(loaded.std_types[t]):
            fail("C15:std-types:%s" % t, "standard types", path=v["path"])
    # a pipeflow on the loaded net gives the same results
    if not fails:
        na = copy.deepcopy(net)
        ea = eb = None
        # both at tightened solver tolerances: the JSON paths perturb the inputs by 1e-15, and at the default tolerances two
        # runs from such inputs may stop one iteration apart (differences of the order of the tolerance, not of the storage)
        rerun_opts = {} if v["path"] == "pickle" else dict(oracles.TIGHT)
        try:
            netgen.run(na, spec, **rerun_opts)
        except Exception as e:
            ea = e
        try:
            netgen.run(loaded, spec, **rerun_opts)
        except Exception as e:
            eb = e
        from pandapipes.pf.pipeflow_setup import PipeflowNotConverged
        marginal = v["path"] != "pickle" and all(x is None or isinstance(x, PipeflowNotConverged) for x in (ea, eb))
        if type(ea) is not type(eb) and marginal:
            pass        # a 1e-15 perturbation of the inputs (JSON decimals) may flip a marginal convergence; pickle must not
        elif type(ea) is not type(eb):
            fail("C15:rerun-outcome", "pipeflow on the loaded net", original=repr(ea)[:100], loaded=repr(eb)[:100], path=v["path"])
        elif ea is None:
            if v["path"] == "pickle":
                d = oracles.compare_results(na, loaded, atol=0.0, rtol=0.0)
            else:
                oracles.mask_zero_flow_friction(na, loaded)
                d = oracles.compare_results(na, loaded, atol=1e-9, rtol=1e-7, flow_scale_tol=1e-6)
            if d:
                fail("C15:rerun-results:%s:%s" % (d[0][0], d[0][1]), "pipeflow on the loaded net gives the same results", first=d[:3],
                     path=v["path"])
    return {"status": "ok", "failures": fails, "hash": netgen.structure_hash(spec) + v["path"] + v["custom"] + str(v["with_results"]),
            "nontrivial": True, "tags": [v["path"], v["custom"], "res" if v["with_results"] else "nores", "sector:" + str(net.sector)],
            "sample": dict(netgen.summarize(spec), **{k: v[k] for k in ("path", "custom", "with_results")})}


def tie(ctx):
    """the codec model's stored fields per property class vs the real to_dict(); real from_dict(to_dict) behaves identically"""
    from pandapipes.properties import fluids as F
    rng = np.random.default_rng([ctx.seed, 15])
    insts = [F.FluidPropertyInterExtra([280., 300., 340.], [1., 2., 4.]), F.FluidPropertyConstant(3.5),
             F.FluidPropertyConstant(2.5, warn_dependent_variables=True),
             F.FluidPropertyLinear(0.5, 2.0), F.FluidPropertyPolynominal([280., 300., 320., 340.], [1., 1.4, 2.1, 3.3], 2),
             F.FluidPropertySutherland(1e-5, 273.0, 110.0)]
    classes = [n for n in dir(F) if n.startswith("FluidProperty") and n != "FluidProperty"]
    lines = ["codec %s" % type(p).__name__ for p in insts]
    out = LeanDriver().run(lines)
    bad = []
    for p, o in zip(insts, out):
        real = sorted(p.to_dict().keys())
        if sorted(k for k in o.split(",") if k) != real:
            bad.append({"class": type(p).__name__, "model_fields": o, "real_fields": real})
        q = type(p).from_dict(p.to_dict())
        xs = rng.uniform(270, 350, 7)
        try:
            same = np.array_equal(np.asarray(p.get_at_value(xs), float), np.asarray(q.get_at_value(xs), float))
        except Exception as e:
            same = False
        if not same:
            bad.append({"class": type(p).__name__, "what": "from_dict(to_dict()) evaluates differently"})
        lo, hi = rng.uniform(275, 300, 3), rng.uniform(305, 345, 3)
        if stored_fields(p) != stored_fields(q):
            bad.append({"class": type(p).__name__, "what": "from_dict(to_dict()) changes a stored field",
                        "original": stored_fields(p), "loaded": stored_fields(q)})
        if prop_integral(p, lo, hi) != prop_integral(q, lo, hi):
            bad.append({"class": type(p).__name__, "what": "from_dict(to_dict()) integrates differently",
                        "original": prop_integral(p, lo, hi), "loaded": prop_integral(q, lo, hi)})
    for c in classes:
        if c not in [type(p).__name__ for p in insts]:
            bad.append({"class": c, "what": "property class without a codec model entry (new class?)"})
    return {"cases": len(lines) * 2, "disagreements": bad, "stats": {"property_classes": len(insts)}}


def search(ctx, escalate=False):
    n = ctx.budget(160, 4000)
    if escalate:
        n = max(n, 800)
    agg = explore.explore(ctx.seed, n, gen, oracle)
    agg["rule"] = ("generated nets with every component type, with / without results, custom columns, custom fluid properties of every "
                   "class, custom pump types, user options, controllers, NaN / None cells, through to_json (string, file, encrypted) "
                   "and to_pickle: tables with dtypes and indices, fluid values, std types, component list, sector, name, user "
                   "options, bit-identical re-run")
    return agg


def replay(ctx, payload):
    explore.warm_up()
    return oracle(payload["case"]).get("failures") or None
