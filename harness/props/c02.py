"""C02 — every flowing branch obeys the documented pressure-loss law; derived quantities consistent."""
import numpy as np

import explore
import kernel_selfcheck
import netgen
import oracles

GENERATORS = ["constants", "idx", "kernels", "kernel_runner"]
ASSUMPTIONS = ["law residual evaluated from reported results at tightened solver tolerances (tol_p=tol_m=1e-9); accepted "
               "up to 2e-7 bar + 1e-6 * |friction loss| (clean tree: <=1e-9 bar)",
               "fluid property values are taken from the repository's fluid library (that library is property C19)",
               "gas pipes are checked per pipe only when they have one section (internal section pressures are not in res_pipe)"]
G = 9.81
PN, TN = 1.01325, 273.15


def pamb(h):
    return PN * (1 - h * 0.0065 / 288.15) ** 5.255


def tie(ctx):
    kbad, kstats = kernel_selfcheck.run(ctx.seed, ctx.budget(2000, 40000))
    keep = ("hyd", "lambda", "medium", "derived", "gasResults", "gasPressures", "gasVel", "realDensity")
    kbad = [b for b in kbad if b.get("kernel", "").startswith(keep)]
    ks = {k: v for k, v in kstats.items() if k.startswith(keep)}
    return {"cases": sum(v["inputs"] for v in ks.values()), "disagreements": kbad, "stats": ks}


def gen(rng):
    if rng.random() < 0.07:
        # thermal calculation of a gas net with heat losses and pipes declared against the flow: norm-factor clause only
        s = netgen.gen_gas_heat_tree(rng)
        s["c02"] = {"thermal_gas": True}
        return s
    s = netgen.gen_hydraulic(rng, features={"p_outage": 0.15})
    return s


def check_gas_thermal(net):
    """norm factors and gas velocities at the two declared ends of every flowing pipe after a thermal calculation: they follow
    from the reported pressure of that end and the fluid temperature at that end -- the inlet junction's temperature at the end
    where the gas enters, the reported outlet temperature `t_outlet_k` at the end where it leaves"""
    fails = []
    fluid = net.fluid
    rho_n = float(fluid.get_density(TN))
    r, t = net.res_pipe, net.pipe
    for idx in t.index:
        m = r.at[idx, "mdot_from_kg_per_s"]
        if not t.at[idx, "in_service"] or not np.isfinite(m) or abs(m) < 1e-5:
            continue
        fwd = m > 0
        hh = {e: float(net.junction.height_m.at[t.at[idx, e]]) for e in ("from_junction", "to_junction")}
        p_from = r.at[idx, "p_from_bar"] + pamb(hh["from_junction"])
        p_to = r.at[idx, "p_to_bar"] + pamb(hh["to_junction"])
        t_from = r.at[idx, "t_from_k"] if fwd else r.at[idx, "t_outlet_k"]
        t_to = r.at[idx, "t_outlet_k"] if fwd else r.at[idx, "t_to_k"]
        vn = m / rho_n / (np.pi * (t.at[idx, "inner_diameter_mm"] / 1000.0) ** 2 / 4)
        for end, p, tk in (("from", p_from, t_from), ("to", p_to, t_to)):
            exp = PN * tk * float(fluid.get_compressibility(p, tk)) / (TN * p)
            got = r.at[idx, "normfactor_" + end]
            if abs(got - exp) > 1e-7 * abs(exp) and not any(f["fingerprint"].startswith("C02:thermal:normfactor_" + end) for f in fails):
                fails.append({"fingerprint": "C02:thermal:normfactor_%s:%s-flow" % (end, "forward" if fwd else "reverse"),
                              "clause": "norm factor of a pipe end = pN T K(p,T)/(TN p) with that end's pressure and temperature",
                              "detail": {"pipe": int(idx), "reported": float(got), "expected": float(exp), "p_abs": float(p),
                                         "t_end": float(tk), "mdot": float(m)}})
            gv = r.at[idx, "v_%s_m_per_s" % end]
            if abs(gv - vn * exp) > 1e-7 * (1 + abs(vn * exp)) and not any(f["fingerprint"].startswith("C02:thermal:v_" + end) for f in fails):
                fails.append({"fingerprint": "C02:thermal:v_%s:%s-flow" % (end, "forward" if fwd else "reverse"),
                              "clause": "gas velocity of a pipe end = v_N * norm factor of that end",
                              "detail": {"pipe": int(idx), "reported": float(gv), "expected": float(vn * exp)}})
    return fails


def check_net(net, spec):
    fails = []
    fluid = net.fluid
    gas = fluid.is_gas
    fm = net["_options"]["friction_model"]
    h = net.junction.height_m
    rho_n = float(fluid.get_density(TN))

    def fail(fp, clause, **detail):
        if not any(f["fingerprint"] == fp for f in fails):
            fails.append({"fingerprint": fp, "clause": clause, "detail": detail})

    comps = [("pipe", "from_junction", "to_junction")]
    if oracles.has(net, "valve"):
        comps.append(("valve", "junction", "element"))
    if oracles.has(net, "heat_exchanger"):
        comps.append(("heat_exchanger", "from_junction", "to_junction"))
    pv_pipes = {p for (_v, _j, p, _s) in oracles.pipe_valve_info(net)}
    for tbl, fc, tc in comps:
        t, r = net[tbl], net["res_" + tbl]
        for idx in t.index:
            m = r.at[idx, "mdot_from_kg_per_s"]
            if np.isnan(m) or abs(m) < 1e-4:
                continue
            fj, tj = int(t.at[idx, fc]), int(t.at[idx, tc])
            if tbl == "valve" and t.at[idx, "et"] != "ju":
                # junction-to-pipe valve: its far end is an internal node that sits where the junction sits (same height,
                # same ambient pressure); the attached pipe reports that node's pressure at its valve end
                tj = fj
            d = (t.at[idx, "inner_diameter_mm"]) / 1000.0
            area = d * d * np.pi / 4
            length = t.at[idx, "length_km"] * 1000.0 if tbl == "pipe" else 0.0
            k = t.at[idx, "k_mm"] / 1000.0 if tbl == "pipe" else 1e-3
            zeta = t.at[idx, "loss_coefficient"]
            sections = int(t.at[idx, "sections"]) if tbl == "pipe" else 1
            tf, tout = r.at[idx, "t_from_k"], r.at[idx, "t_outlet_k"]
            pf = r.at[idx, "p_from_bar"] + pamb(h.at[fj])
            pt = r.at[idx, "p_to_bar"] + pamb(h.at[tj])
            dh = h.at[fj] - h.at[tj]
            has_fr = "lambda" in r.columns          # heat exchangers (zero length) report neither lambda nor Re
            lam, re = (r.at[idx, "lambda"], r.at[idx, "reynolds"]) if has_fr else (0.0, np.nan)
            tm = (tf + tout) / 2
            if abs(tf - tout) > 1e-9 and (m < 0 or sections != 1):
                # given, non-uniform junction temperatures: the law is evaluated per section with interpolated temperatures,
                # and for flow against the declared direction the reported t_from / t_outlet are not inlet / outlet
                continue
            if not gas:
                rho = (float(fluid.get_density(tf)) + float(fluid.get_density(tout))) / 2
                eta = float(fluid.get_viscosity(tm))
                v = m / (rho * area)
                if "v_mean_m_per_s" in r.columns and abs(r.at[idx, "v_mean_m_per_s"] - v) > 1e-9 * (1 + abs(v)):
                    fail("C02:v_mean:%s" % tbl, "v = mdot/(rho A)", table=tbl, index=int(idx), reported=r.at[idx, "v_mean_m_per_s"], expected=v)
                loss = (lam * length / d + zeta) * rho * v * abs(v) / 2 / 1e5
                resid = pf - pt + rho * G * dh / 1e5 - loss
                if tbl == "pipe" and sections >= 2 and idx not in pv_pipes and abs(tf - tout) <= 1e-9 and has_fr:
                    # the law section by section: internal nodes sit at linearly interpolated heights, every section carries the
                    # pipe's flow, 1/n of its length and 1/n of its lumped loss coefficient
                    try:
                        from pandapipes.component_models.pipe_component import Pipe
                        pin = np.asarray(Pipe.get_internal_results(net, np.array([idx]))["PINIT"])[:, 1]
                    except Exception as ex:         # the helper is outside this clause (C06 covers it)
                        pin = None
                    if pin is not None and len(pin) == sections - 1 and np.all(np.isfinite(pin)):
                        hs = np.linspace(h.at[fj], h.at[tj], sections + 1)
                        pg = np.concatenate([[r.at[idx, "p_from_bar"]], pin, [r.at[idx, "p_to_bar"]]])
                        pa = pg + np.array([pamb(x) for x in hs])
                        loss_s = (lam * length / sections / d + zeta / sections) * rho * v * abs(v) / 2 / 1e5
                        rs = pa[:-1] - pa[1:] + rho * G * (hs[:-1] - hs[1:]) / 1e5 - loss_s
                        if np.max(np.abs(rs)) > 2e-7 + 1e-6 * abs(loss_s):
                            fail("C02:law:liquid:pipe-section", "documented momentum equation, section by section", table=tbl,
                                 index=int(idx), section=int(np.argmax(np.abs(rs))), residual_bar=float(np.max(np.abs(rs))),
                                 sections=sections, mdot=m)
            else:
                if sections != 1:
                    continue
                if pf <= 0 or pt <= 0:
                    continue          # converged to a negative absolute pressure (overloaded gas net; pandapipes warns): no physical state
                pm = pf if np.isclose(pf, pt) else 2 / 3 * (pf ** 3 - pt ** 3) / (pf ** 2 - pt ** 2)
                K = float(fluid.get_compressibility(pm, tm))
                eta = float(fluid.get_viscosity(tm))
                vn = m / (rho_n * area)
                loss = (lam * length / d + zeta) * rho_n * vn * abs(vn) / 2 * (PN / ((pf + pt) / 2)) * (tm / TN) * K / 1e5
                rf = rho_n * TN * pf / (tf * PN * float(fluid.get_compressibility(pf, tf)))
                rt = rho_n * TN * pt / (tout * PN * float(fluid.get_compressibility(pt, tout)))
                resid = pf - pt + (rf + rt) / 2 * G * dh / 1e5 - loss
                nf_exp = PN * tf * float(fluid.get_compressibility(pf, tf)) / (TN * pf)
                if "normfactor_from" in r.columns and abs(r.at[idx, "normfactor_from"] - nf_exp) > 1e-8 * abs(nf_exp):
                    fail("C02:normfactor_from:%s" % tbl, "norm factor = pN T K/(TN p)", table=tbl, index=int(idx),
                         reported=r.at[idx, "normfactor_from"], expected=nf_exp)
                if "v_from_m_per_s" in r.columns and abs(r.at[idx, "v_from_m_per_s"] - vn * nf_exp) > 1e-8 * (1 + abs(vn * nf_exp)):
                    fail("C02:v_from:%s" % tbl, "v_from = v_N * normfactor_from", table=tbl, index=int(idx),
                         reported=r.at[idx, "v_from_m_per_s"], expected=vn * nf_exp)
            if abs(resid) > 2e-7 + 1e-6 * abs(loss):
                fail("C02:law:%s:%s" % ("gas" if gas else "liquid", tbl), "documented momentum equation", table=tbl,
                     index=int(idx), residual_bar=resid, friction_loss_bar=loss, mdot=m, friction_model=fm)
            re_exp = abs(m) * d / (eta * area)
            if not has_fr:
                continue
            # reported Re / lambda are those of the last linearisation: they may lag the reported mass flow by the last Newton
            # step (<= tol_m = 1e-9 kg/s at the tightened tolerances), nothing more
            lag = 1e-7 + 1e-8 / abs(m)
            if abs(m) > 1e-3 and abs(re - re_exp) > lag * (1 + re_exp):
                fail("C02:reynolds:%s" % tbl, "Re = |mdot| d/(eta A)", table=tbl, index=int(idx), reported=re, expected=re_exp)
            if tbl == "pipe" and abs(m) > 1e-3:
                if fm == "nikuradse":
                    lam_exp = 64 / re_exp + (1 / (2 * np.log10(3.71 * d / k)) ** 2 if not gas else 1 / (2 * np.log10(d / k) + 1.14) ** 2)
                    ok = abs(lam - lam_exp) <= lag * lam_exp
                elif fm == "swamee-jain":
                    lam_exp = 0.25 / (np.log10(k / (3.7 * d) + 5.74 / re_exp ** 0.9)) ** 2
                    ok = abs(lam - lam_exp) <= lag * lam_exp
                else:
                    lam_exp = None
                    f_cw = lam ** -0.5 + 2 * np.log10(2.51 / (re_exp * np.sqrt(lam)) + k / (3.71 * d))
                    ok = abs(f_cw) <= 2e-2
                if not ok:
                    fail("C02:lambda:%s" % fm, "friction factor model", index=int(idx), reported=lam, expected=lam_exp, re=re_exp)
    return fails


def oracle(spec):
    # Colebrook's inner Newton iteration stops at an absolute step of tolerance_colebrook (default 1e-4 on a
    # lambda of ~0.03): tighten it too, the law is checked against the converged friction factor
    net, e = netgen.try_run(spec, **dict(oracles.TIGHT, tolerance_colebrook=1e-10, max_iter_colebrook=200))
    if e is not None:
        return {"status": "skip:" + type(e).__name__}
    if spec.get("c02", {}).get("thermal_gas"):
        return {"status": "ok", "failures": check_gas_thermal(net), "hash": netgen.structure_hash(spec) + "tg",
                "nontrivial": netgen.nontrivial(spec), "tags": ["gas", "thermal-normfactors"], "sample": netgen.summarize(spec)}
    return {"status": "ok", "failures": check_net(net, spec), "hash": netgen.structure_hash(spec),
            "nontrivial": netgen.nontrivial(spec),
            "tags": ["gas" if spec["fluid"] != "water" else "liquid", spec["options"]["friction_model"]],
            "sample": netgen.summarize(spec)}


def search(ctx, escalate=False):
    n = ctx.budget(200, 5000)
    if escalate:
        n = max(n, 1200)
    agg = explore.explore(ctx.seed, n, gen, oracle)
    agg["rule"] = ("generated supply nets (water + 4 gases, heights, loss coefficients, 1-6 sections, both flow directions, "
                   "nikuradse / colebrook / swamee-jain, numba on/off); per in-service pipe, junction-valve and heat exchanger "
                   "with |mdot|>1e-5 the documented law, v, Re, lambda, norm factors are re-evaluated from res_* tables")
    return agg


def replay(ctx, payload):
    explore.warm_up()
    return oracle(payload["case"]).get("failures") or None
