"""C06 — results do not depend on labels, row order or creation order."""
import copy

import numpy as np

import explore
import netgen
import oracles
from common import LeanDriver

GENERATORS = []
ASSUMPTIONS = ["two valid descriptions are compared on runs with tightened tolerances at 1e-6 abs / 1e-5 rel (different pivot "
               "order => not bitwise); zero-flow pump/compressor degeneracies are skipped and counted",
               "index labels < 2^31 (the numba grouped sum casts to int32; stated as a precondition of groupsum_bucket_eq_spec)"]

ELEMENT_TABLES = netgen.BRANCH_TABLES + netgen.NODE_TABLES
NAME = {"pipes": "pipe", "valves": "valve", "pumps": "pump", "compressors": "compressor", "flow_controls": "flow_control",
        "press_controls": "press_control", "heat_exchangers": "heat_exchanger", "heat_consumers": "heat_consumer",
        "circ_pumps_p": "circ_pump_pressure", "circ_pumps_m": "circ_pump_mass", "ext_grids": "ext_grid", "sinks": "sink",
        "sources": "source", "mass_storages": "mass_storage"}


# ---- tie: grouped sums and lookups ---------------------------------------------------------------------
def tie(ctx):
    from pandapipes.pf.internals_toolbox import _sum_by_group_np, _sum_by_group_numba
    rng = np.random.default_rng([ctx.seed, 606])
    lines, reals = [], []
    for _ in range(ctx.budget(600, 20000)):
        n = int(rng.integers(1, 40))
        style = rng.random()
        hi = 8 if style < 0.4 else (10 * n + 5 if style < 0.7 else (120000 if style < 0.85 else 3000000))
        idx = rng.integers(0, hi, n)
        if rng.random() < 0.2:
            idx = idx + int(rng.choice([99990, 199995, 5 * 10 ** 6]))
        vals = rng.integers(-9, 10, n).astype(float)
        r_np = _sum_by_group_np(idx.copy(), vals.copy())
        r_nb = _sum_by_group_numba(idx.copy(), vals.copy())
        reals.append((" ".join("%d:%d" % (int(i), int(v)) for i, v in zip(r_np[0], r_np[1])),
                      " ".join("%d:%d" % (int(i), int(v)) for i, v in zip(r_nb[0], r_nb[1]))))
        lines.append("groupsum :: %s :: %s" % (" ".join(str(int(i)) for i in idx), " ".join(str(int(v)) for v in vals)))
    out = LeanDriver().run(lines)
    bad = []
    for line, o, (rnp, rnb) in zip(lines, out, reals):
        if not (o == rnp == rnb):
            bad.append({"case": line[:300], "model": o[:200], "numpy": rnp[:200], "numba": rnb[:200]})
            if len(bad) > 8:
                break
    # float accuracy: a group's sum must not depend on what the other groups hold (one huge entry elsewhere - the friction
    # factor 64/Re of a stagnant pipe is ~1e11 - must not cost the others their digits); exact reference: math.fsum per group
    import math
    nf = 0
    for _ in range(ctx.budget(150, 3000)):
        n = int(rng.integers(3, 40))
        idx = rng.integers(0, max(2, n // 2), n)
        vals = rng.uniform(0.005, 0.09, n)
        vals[int(rng.integers(0, n))] = float(rng.choice([1e9, 6e10, 1e13]))
        for nm, fn in (("numpy", _sum_by_group_np), ("numba", _sum_by_group_numba)):
            keys, sums = fn(idx.copy(), vals.copy())
            nf += 1
            for kk, sv in zip(keys, sums):
                grp = vals[idx == kk]
                exact = math.fsum(grp)
                if abs(sv - exact) > 4 * np.finfo(float).eps * float(np.sum(np.abs(grp))) * len(grp):
                    bad.append({"case": "float accuracy of %s grouped sum" % nm, "group": int(kk), "got": float(sv), "exact": exact,
                                "group_values": grp[:4].tolist(), "largest_entry_elsewhere": float(vals.max())})
                    break
            if len(bad) > 8:
                break
    return {"cases": len(lines) + nf, "disagreements": bad, "stats": {"grouped_sums": len(lines), "float_accuracy_cases": nf}}


# ---- search: relabelled / permuted / re-ordered descriptions ------------------------------------------
def gen(rng):
    r = rng.random()
    if r < 0.55:
        s = netgen.gen_hydraulic(rng, features={"p_outage": 0.3})
    elif r < 0.8:
        s = netgen.gen_heat_tree(rng)
    else:
        s = netgen.gen_heat_loop(rng)
    for t in ELEMENT_TABLES:
        for i, e in enumerate(s[t]):
            e["index"] = i
    nj = len(s["junctions"])
    var = {"kind": str(rng.choice(["relabel", "rows", "rows", "order", "all"]))}
    var["jlabels"] = netgen._labels(rng, nj, str(rng.choice(["shuffled", "sparse", "large"])))
    var["elabels"] = {t: netgen._labels(rng, len(s[t]), str(rng.choice(["shuffled", "sparse"]))) for t in ELEMENT_TABLES}
    var["row_perm"] = {t: [int(x) for x in rng.permutation(len(s[t]))] for t in ELEMENT_TABLES}
    var["row_perm"]["junctions"] = [int(x) for x in rng.permutation(nj)]
    order = list(netgen.DEFAULT_ORDER)
    rng.shuffle(order)
    if order.index("valves") < order.index("pipes"):
        i, j = order.index("valves"), order.index("pipes")
        order[i], order[j] = order[j], order[i]
    var["order"] = order
    s["c06"] = var
    return s


def variant(spec):
    v = spec["c06"]
    s2 = copy.deepcopy(spec)
    kw = {}
    if v["kind"] in ("relabel", "all"):
        for k, j in enumerate(s2["junctions"]):
            j["index"] = v["jlabels"][k]
        for t in ELEMENT_TABLES:
            for i, e in enumerate(s2[t]):
                e["index"] = v["elabels"][t][i]
    if v["kind"] in ("rows", "all"):
        kw["row_perm"] = v["row_perm"]
    if v["kind"] in ("order", "all"):
        kw["order"] = v["order"]
    return s2, kw


def oracle(spec):
    s2, kw = variant(spec)
    opts = dict(oracles.TIGHT, tolerance_colebrook=1e-10, max_iter_colebrook=200)
    na, ea = netgen.try_run(spec, **opts)
    nb, eb = netgen.try_run(s2, build_kw=kw, **opts)
    if ea is not None or eb is not None:
        return {"status": "skip:" + type(ea or eb).__name__}
    if oracles.degenerate(na) or oracles.degenerate(nb):
        return {"status": "skip:degenerate"}
    oracles.mask_zero_flow_friction(na, nb)
    imap = {"junction": {spec["junctions"][k]["index"]: s2["junctions"][k]["index"] for k in range(len(spec["junctions"]))}}
    for t in ELEMENT_TABLES:
        imap[NAME[t]] = {spec[t][i]["index"]: s2[t][i]["index"] for i in range(len(spec[t]))}
    d = oracles.compare_results(na, nb, atol=1e-6, rtol=1e-5, index_map=imap)
    fails = []
    # the per-section results of multi-section pipes (Pipe.get_internal_results) belong to "the results" as well
    try:
        from pandapipes.component_models.pipe_component import Pipe
        multi = [i for i in range(len(spec["pipes"])) if spec["pipes"][i]["sections"] > 1 and spec["pipes"][i]["in_service"]]
        for i in multi[:3]:                 # one pipe per call (the helper wants equal section counts within a call)
            la = np.array([spec["pipes"][i]["index"]])
            lb = np.array([s2["pipes"][i]["index"]])
            ra, rb = Pipe.get_internal_results(na, la), Pipe.get_internal_results(nb, lb)
            for key in ("PINIT", "TINIT", "VINIT_MEAN"):
                xa, xb = np.asarray(ra[key], float)[:, 1], np.asarray(rb[key], float)[:, 1]
                if xa.shape != xb.shape or not np.allclose(xa, xb, rtol=1e-5, atol=1e-6, equal_nan=True):
                    fails.append({"fingerprint": "C06:internal-results:%s%s:%s" % ("gas:" if spec["fluid"] != "water" else "", spec["c06"]["kind"], key),
                                  "clause": "same physical system, different %s" % spec["c06"]["kind"],
                                  "detail": {"pipes": la.tolist(), "variant_pipes": lb.tolist(), "a": xa[:4].tolist(), "b": xb[:4].tolist()}})
                    break
    except Exception as ex:
        fails.append({"fingerprint": "C06:internal-results:%s%s:raises:%s" % ("gas:" if spec["fluid"] != "water" else "", spec["c06"]["kind"], type(ex).__name__),
                      "clause": "per-section results available for any labelling", "detail": {"exc": repr(ex)[:200]}})
    if d:
        fails.append({"fingerprint": "C06:%s:%s:%s" % (spec["c06"]["kind"], d[0][0], d[0][1]),
                      "clause": "same physical system, different %s" % spec["c06"]["kind"],
                      "detail": {"first": d[:3], "mode": spec["options"].get("mode"),
                                 "multi_section_pipes": sum(1 for p in spec["pipes"] if p["sections"] > 1)}})
    return {"status": "ok", "failures": fails, "hash": netgen.structure_hash(spec) + spec["c06"]["kind"],
            "nontrivial": netgen.nontrivial(spec), "tags": [spec["c06"]["kind"], spec["options"].get("mode", "hydraulics")],
            "sample": dict(netgen.summarize(spec), variant=spec["c06"]["kind"])}


def search(ctx, escalate=False):
    n = ctx.budget(200, 5000)
    if escalate:
        n = max(n, 1200)
    agg = explore.explore(ctx.seed, n, gen, oracle)
    agg["rule"] = ("each generated net (hydraulic / heat tree / heating loop, multi-section pipes, outages) is run as described and "
                   "as a variant: relabelled junction and element indices (shuffled, sparse, large), permuted row creation order of "
                   "every table, shuffled creation order of the component types, or all three; results joined on element identity")
    return agg


def replay(ctx, payload):
    explore.warm_up()
    return oracle(payload["case"]).get("failures") or None
