"""C08 — the solution is independent of initial guesses and of the damping strategy."""
import copy

import numpy as np

import explore
import kernel_selfcheck
import netgen
import oracles

GENERATORS = ["constants", "idx", "kernels", "kernel_runner"]
ASSUMPTIONS = ["uniqueness is proved for strictly monotone branch laws; monotonicity is proved for the generated liquid Nikuradse "
               "law (a*m + b*m|m|) and is a named hypothesis for Colebrook / Swamee-Jain and for gases with pressure dependent K",
               "converged pairs are compared on runs with tightened tolerances (1e-6 abs / 1e-5 rel); zero-flow pump/compressor "
               "degeneracies are skipped"]


def tie(ctx):
    kbad, kstats = kernel_selfcheck.run(ctx.seed, ctx.budget(1500, 30000))
    keep = ("hydIncomp", "lambdaIncomp")
    return {"cases": sum(v["inputs"] for k, v in kstats.items() if k.startswith(keep)),
            "disagreements": [b for b in kbad if b.get("kernel", "").startswith(keep)],
            "stats": {k: v for k, v in kstats.items() if k.startswith(keep)}}


def gen(rng):
    r = rng.random()
    if r < 0.6:
        s = netgen.gen_hydraulic(rng, features={"p_outage": 0.15})
    elif r < 0.8:
        s = netgen.gen_heat_tree(rng)
    else:
        s = netgen.gen_heat_loop(rng)
    if 0.6 <= r < 0.8 and rng.random() < 0.25:
        # a second temperature-fixing grid at lower pressure that takes up flow, solved together with the hydraulics: pandapipes
        # cannot set up this thermal system and must say so; if a calculation returns, its result must not depend on the start values
        s["ext_grids"].append({"junction": len(s["junctions"]) - 1, "p_bar": 5.2, "t_k": 320.0, "type": "pt", "in_service": True})
        s["options"]["mode"] = "bidirectional"
    if r >= 0.6 and rng.random() < 0.35:
        netgen.add_thermal_island(rng, s)
        if rng.random() < 0.6:
            s["options"]["mode"] = "bidirectional"
    nj = len(s["junctions"])
    s["c08"] = {"pn": [float(x) for x in rng.uniform(0.5, 1.6, nj)], "tf": [float(x) for x in rng.uniform(-25, 25, nj)],
                "methods": [str(rng.choice(["constant", "automatic"])), str(rng.choice(["constant", "automatic"]))]}
    return s


def oracle(spec):
    v = spec["c08"]
    s2 = copy.deepcopy(spec)
    thermal = spec["options"].get("mode") in ("sequential", "bidirectional")
    # tfluid_k is a pure start value only where temperatures are solved together with the hydraulics; in the sequential
    # mode the hydraulic stage evaluates the fluid properties at tfluid_k by design (one-way coupling)
    for k, j in enumerate(s2["junctions"]):
        j["pn_bar"] = j["pn_bar"] * v["pn"][k]
        if spec["options"].get("mode") == "bidirectional":
            j["tfluid_k"] = j["tfluid_k"] + v["tf"][k]
    opts = dict(oracles.TIGHT, tolerance_colebrook=1e-10, max_iter_colebrook=200, alpha=1)
    na, ea = netgen.try_run(spec, **dict(opts, nonlinear_method=v["methods"][0]))
    nb, eb = netgen.try_run(s2, **dict(opts, nonlinear_method=v["methods"][1]))
    if ea is not None or eb is not None:
        return {"status": "skip:" + type(ea or eb).__name__}
    if oracles.degenerate(na) or oracles.degenerate(nb):
        return {"status": "skip:degenerate"}
    oracles.mask_zero_flow_friction(na, nb)
    d = oracles.compare_results(na, nb, atol=1e-6, rtol=1e-5, flow_scale_tol=1e-3)
    fails = []
    if d:
        fails.append({"fingerprint": "C08:%s:%s:%s" % ("thermal" if thermal else "hydraulic", d[0][0], d[0][1]),
                      "clause": "two converged runs of the same physical network agree",
                      "detail": {"first": d[:3], "methods": v["methods"], "mode": spec["options"].get("mode"),
                                 "fluid": spec["fluid"]}})
    return {"status": "ok", "failures": fails, "hash": netgen.structure_hash(spec) + "".join(m[0] for m in v["methods"]),
            "nontrivial": netgen.nontrivial(spec), "tags": [spec["options"].get("mode", "hydraulics")] + v["methods"],
            "sample": dict(netgen.summarize(spec), methods=v["methods"])}


def search(ctx, escalate=False):
    n = ctx.budget(200, 5000)
    if escalate:
        n = max(n, 1200)
    agg = explore.explore(ctx.seed, n, gen, oracle)
    agg["rule"] = ("each generated net is solved twice: start pressures pn_bar scaled by 0.5..1.6 per junction (and start "
                   "temperatures shifted by +-25 K in thermal modes), damping strategy drawn independently for both runs, alpha=1")
    return agg


def replay(ctx, payload):
    explore.warm_up()
    return oracle(payload["case"]).get("failures") or None
