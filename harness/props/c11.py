"""C11 — heat exchangers, consumers and circulation pumps report consistent heat duties."""
import numpy as np

import explore
import kernel_selfcheck
import netgen
import oracles

GENERATORS = ["constants", "idx", "kernels", "kernel_runner"]
ASSUMPTIONS = ["duties are evaluated on runs with tol_T=1e-7; identities to 1e-6 relative",
               "loop closure is accepted within the heat-capacity discretisation bound sum |mdot| |dT| |cp(T1)-cp(T2)| / 2 "
               "+ 1e-6 of the circulated enthalpy flow",
               "set-points are demanded where the property demands them: mass flow prescribed, or bidirectional mode"]


def tie(ctx):
    kbad, kstats = kernel_selfcheck.run(ctx.seed, ctx.budget(1500, 30000))
    keep = ("thermalBranch",)
    # the heat-consumer class methods (duty / mass-flow derivation per mode) as generated models vs the real class methods
    cbad, cstats = kernel_selfcheck.run_components(ctx.seed, ctx.budget(400, 8000))
    ckeep = ("hc", "components")
    return {"cases": sum(v["inputs"] for k, v in kstats.items() if k.startswith(keep)) +
                     sum(v["inputs"] for k, v in cstats.items() if k.startswith(ckeep)),
            "disagreements": [b for b in kbad if b.get("kernel", "").startswith(keep)] +
                             [b for b in cbad if b.get("kernel", "").startswith(ckeep)],
            "stats": dict({k: v for k, v in kstats.items() if k.startswith(keep)},
                          **{k: v for k, v in cstats.items() if k.startswith(ckeep)})}


def gen(rng):
    s = netgen.gen_heat_loop(rng, with_hex=True, recirc=bool(rng.random() < 0.3))
    feeds = [e["t_flow_k"] for t in ("circ_pumps_p", "circ_pumps_m") for e in s[t]]
    for j in s["junctions"]:
        j["tfluid_k"] = feeds[0]
    for i, e in enumerate(s["heat_consumers"]):
        e["index"] = i
    if len(s["heat_consumers"]) > 1 and rng.random() < 0.4:
        # consumer labels that are not ascending in row order (drawn last: everything else of the case stays what it was)
        lab = netgen._labels(rng, len(s["heat_consumers"]), str(rng.choice(["shuffled", "sparse"])))
        for e, l in zip(s["heat_consumers"], lab):
            e["index"] = int(l)
    return s


def check_net(net, spec):
    fails = []
    fluid = net.fluid
    cp = lambda t: float(fluid.get_heat_capacity(t))
    mode = net["_options"]["mode"]

    def fail(fp, clause, **detail):
        if not any(f["fingerprint"] == fp for f in fails):
            fails.append({"fingerprint": fp, "clause": clause, "detail": detail})

    disc = 0.0          # discretisation allowance for the loop closure
    extracted = 0.0
    # heat consumers
    if oracles.has(net, "heat_consumer"):
        t, r = net.heat_consumer, net.res_heat_consumer
        for pos, idx in enumerate(t.index):
            m = r.at[idx, "mdot_from_kg_per_s"]
            if not t.at[idx, "in_service"] or np.isnan(m):
                continue
            cmode = spec["heat_consumers"][pos]["mode"]
            tin, tout = r.at[idx, "t_from_k"] if m >= 0 else r.at[idx, "t_to_k"], r.at[idx, "t_outlet_k"]
            c = (cp(tin) + cp(tout)) / 2
            duty = abs(m) * c * (tin - tout)
            q = r.at[idx, "qext_w"]
            extracted += duty
            disc += abs(m) * abs(tin - tout) * abs(cp(tin) - cp(tout)) / 2
            prescribed_m = cmode.startswith("MF")
            if abs(q - duty) > 1e-6 * (abs(q) + abs(duty) + 1):
                if mode == "sequential" and not prescribed_m:
                    fail("C11:duty:heat_consumer:%s:sequential" % cmode, "reported heat = mdot*cp*(t_from - t_outlet)",
                         index=int(idx), qext_w=float(q), duty_from_temperatures=float(duty), mdot=float(m))
                else:
                    fail("C11:duty:heat_consumer", "reported heat = mdot*cp*(t_from - t_outlet)", index=int(idx), mode=cmode,
                         qext_w=float(q), duty_from_temperatures=float(duty), calc_mode=mode)
            if abs(r.at[idx, "deltat_k"] - (tin - tout)) > 1e-9 * (1 + abs(tin - tout)):
                fail("C11:deltat-report", "deltat_k = t_from - t_outlet", index=int(idx), deltat=float(r.at[idx, "deltat_k"]),
                     t_from=float(tin), t_outlet=float(tout))
            if prescribed_m or mode == "bidirectional":
                sp = t.loc[idx]
                checks = []
                if not np.isnan(sp.controlled_mdot_kg_per_s):
                    checks.append(("mdot", m, sp.controlled_mdot_kg_per_s))
                if not np.isnan(sp.qext_w):
                    checks.append(("qext", q, sp.qext_w))
                if not np.isnan(sp.deltat_k):
                    checks.append(("deltat", tin - tout, sp.deltat_k))
                if not np.isnan(sp.treturn_k):
                    checks.append(("treturn", tout, sp.treturn_k))
                for name, got, want in checks:
                    if abs(got - want) > 1e-5 * (1 + abs(want)):
                        fail("C11:setpoint:%s:%s" % (cmode, name), "prescribed quantity equals its set-point", index=int(idx),
                             reported=float(got), set=float(want), calc_mode=mode)
    if oracles.has(net, "heat_exchanger"):
        t, r = net.heat_exchanger, net.res_heat_exchanger
        for idx in t.index:
            m = r.at[idx, "mdot_from_kg_per_s"]
            if not t.at[idx, "in_service"] or np.isnan(m) or abs(m) < 1e-7:
                continue
            tin, tout = r.at[idx, "t_from_k"] if m >= 0 else r.at[idx, "t_to_k"], r.at[idx, "t_outlet_k"]
            c = (cp(tin) + cp(tout)) / 2
            duty = abs(m) * c * (tin - tout)
            extracted += duty
            disc += abs(m) * abs(tin - tout) * abs(cp(tin) - cp(tout)) / 2
            if abs(t.at[idx, "qext_w"] - duty) > 1e-6 * (abs(duty) + 1):
                fail("C11:duty:heat_exchanger", "extracted heat = mdot*cp*(t_from - t_outlet)", index=int(idx),
                     qext_w=float(t.at[idx, "qext_w"]), duty_from_temperatures=float(duty))
    # pipe losses
    rp = net.res_pipe
    tj = net.res_junction.t_k
    for idx in net.pipe.index:
        m = rp.at[idx, "mdot_from_kg_per_s"]
        if np.isnan(m) or abs(m) < 1e-9:
            continue
        tin = tj.at[int(net.pipe.at[idx, "from_junction"])] if m > 0 else tj.at[int(net.pipe.at[idx, "to_junction"])]
        tout = rp.at[idx, "t_outlet_k"]
        extracted += abs(m) * (cp(tin) + cp(tout)) / 2 * (tin - tout)
        disc += abs(m) * abs(tin - tout) * abs(cp(tin) - cp(tout)) / 2
    # circulation pumps: reported heat vs what the loop takes out
    pumped = 0.0
    circ = 0.0
    n_p = 0
    for tbl in ("circ_pump_pressure", "circ_pump_mass"):
        if oracles.has(net, tbl):
            t, r = net[tbl], net["res_" + tbl]
            for idx in t.index:
                if t.at[idx, "in_service"] and not np.isnan(r.at[idx, "qext_w"]):
                    pumped += r.at[idx, "qext_w"]
                    m = r.at[idx, "mdot_from_kg_per_s"]
                    t1, t2 = r.at[idx, "t_from_k"], r.at[idx, "t_outlet_k"]
                    circ += abs(m) * cp(t2) * max(abs(t2), 1.0) * 0
                    disc += abs(m) * abs(t2 - t1) * abs(cp(t2) - cp(t1)) / 2
                    n_p += 1
    # mixing at junctions with the mean cp between stream and junction adds discretisation of the same order
    if n_p and not fails:
        tol = 3 * disc + 1e-6 * (abs(pumped) + abs(extracted)) + 1e-3
        if abs(pumped - extracted) > tol:
            fail("C11:loop-closure", "pump heat = consumers + exchangers + pipe losses (up to cp discretisation)",
                 pump_qext_w=float(pumped), extracted_w=float(extracted), allowance_w=float(tol), calc_mode=mode)
    return fails


def oracle(spec):
    net, e = netgen.try_run(spec, **oracles.TIGHT)
    if e is not None:
        return {"status": "skip:" + type(e).__name__}
    fails = check_net(net, spec)
    modes = sorted({c["mode"] for c in spec["heat_consumers"]})
    return {"status": "ok", "failures": fails, "hash": netgen.structure_hash(spec) + "".join(modes), "nontrivial": True,
            "tags": [spec["options"]["mode"]] + modes, "sample": dict(netgen.summarize(spec), consumer_modes=modes)}


def search(ctx, escalate=False):
    n = ctx.budget(200, 5000)
    if escalate:
        n = max(n, 1200)
    agg = explore.explore(ctx.seed, n, gen, oracle)
    agg["rule"] = ("heating loops with 1-5 consumers in all five specification modes (positive and negative heat), optional heat "
                   "exchanger behind a flow controller, mass or pressure circulation pump, modes sequential and bidirectional; "
                   "duty identities, set-points, deltat report, loop closure")
    return agg


def replay(ctx, payload):
    explore.warm_up()
    return oracle(payload["case"]).get("failures") or None
