"""C20 — multi-energy coupling conserves energy and equals the decoupled calculation."""
import copy

import numpy as np

import explore
import netgen
import oracles
from common import LeanDriver, f2hex, hex2f

GENERATORS = ["coupling"]
ASSUMPTIONS = ["'exactly the mass flow that corresponds' is read as: the written cell equals the source element's scaled value x "
               "conversion factor x efficiency (the target element's own scaling is applied afterwards by its net, as the code does)",
               "pandapower's power flow and control loop are library code"]


def tie(ctx):
    """generated controller arithmetic (Lean, Float) vs the real controller objects' control_step, bitwise"""
    import pandapower as ppw
    import pandapipes as pp
    from pandapipes.multinet.create_multinet import create_empty_multinet, add_nets_to_multinet
    from pandapipes.multinet.control.controller.multinet_control import (P2GControlMultiEnergy, G2PControlMultiEnergy,
                                                                         GasToGasConversion)
    rng = np.random.default_rng([ctx.seed, 20])
    lines, expect = [], []
    for _ in range(ctx.budget(40, 800)):
        fluid = str(rng.choice(["hgas", "lgas", "hydrogen", "methane"]))
        mn, gas, power, gas2 = small_multinet(pp, ppw, fluid, "lgas")
        hhv = float(np.ravel(pp.get_fluid(gas).get_property("hhv"))[0])
        hhv2 = float(np.ravel(pp.get_fluid(gas2).get_property("hhv"))[0])
        p, sc, eta, m = float(rng.uniform(0.1, 60)), float(rng.choice([1.0, 0.5, 1.7])), float(rng.uniform(0.3, 1.0)), float(rng.uniform(0.01, 2))
        ld = ppw.create_load(power, 1, p_mw=p, scaling=sc)
        src = pp.create_source(gas, 1, 0.0)
        c = P2GControlMultiEnergy(mn, ld, src, efficiency=eta)
        c.control_step(mn)
        lines += ["coupling p2gFactor %s" % f2hex(hhv), "coupling p2g_mdot_kg_per_s %s %s %s" % (f2hex(p * sc), f2hex(float(np.ravel(c.conversion_factor_mw_to_kgps())[0])), f2hex(eta))]
        expect += [float(np.ravel(c.conversion_factor_mw_to_kgps())[0]), float(gas.source.at[src, "mdot_kg_per_s"])]
        sk = pp.create_sink(gas, 1, m, scaling=sc)
        sg = ppw.create_sgen(power, 1, p_mw=0.0)
        g = G2PControlMultiEnergy(mn, sg, sk, efficiency=eta, element_type_power="sgen")
        g.control_step(mn)
        lines += ["coupling g2pFactor %s" % f2hex(hhv), "coupling g2p_power_gen %s %s %s" % (f2hex(m * sc), f2hex(float(np.ravel(g.conversion_factor_kgps_to_mw())[0])), f2hex(eta))]
        expect += [float(np.ravel(g.conversion_factor_kgps_to_mw())[0]), float(power.sgen.at[sg, "p_mw"])]
        sk3 = pp.create_sink(gas, 1, 0.0)
        sg3 = ppw.create_sgen(power, 1, p_mw=p, scaling=sc)
        g3 = G2PControlMultiEnergy(mn, sg3, sk3, efficiency=eta, element_type_power="sgen", calc_gas_from_power=True)
        g3.control_step(mn)
        lines += ["coupling g2p_gas_cons %s %s %s" % (f2hex(p * sc), f2hex(float(np.ravel(g3.conversion_factor_kgps_to_mw())[0])), f2hex(eta))]
        expect += [float(gas.sink.at[sk3, "mdot_kg_per_s"])]
        sk2 = pp.create_sink(gas, 1, m, scaling=sc)
        s2 = pp.create_source(gas2, 1, 0.0)
        gg = GasToGasConversion(mn, sk2, s2, efficiency=eta, name_gas_net_from="gas", name_gas_net_to="gas2")
        gg.control_step(mn)
        lines += ["coupling g2gFactor %s %s" % (f2hex(hhv), f2hex(hhv2)),
                  "coupling g2g_mdot_kg_per_s_out %s %s %s" % (f2hex(m * sc), f2hex(float(np.ravel(gg.conversion_factor_gas1_to_gas2())[0])), f2hex(eta))]
        expect += [float(np.ravel(gg.conversion_factor_gas1_to_gas2())[0]), float(gas2.source.at[s2, "mdot_kg_per_s"])]
    out = LeanDriver().run(lines)
    bad = []
    for line, o, e in zip(lines, out, expect):
        try:
            v = hex2f(o)
        except Exception:
            bad.append({"case": line, "model": o})
            continue
        if v != float(e):
            bad.append({"case": line, "model": v, "real": float(e)})
            if len(bad) > 6:
                break
    return {"cases": len(lines), "disagreements": bad, "stats": {"controller_steps": len(lines)}}


def small_multinet(pp, ppw, fluid, fluid2="lgas"):
    from pandapipes.multinet.create_multinet import create_empty_multinet, add_nets_to_multinet
    mn = create_empty_multinet("verif")
    gas = pp.create_empty_network(fluid=fluid)
    j = pp.create_junctions(gas, 3, pn_bar=30.0, tfluid_k=283.15)
    pp.create_ext_grid(gas, j[0], p_bar=30.0, t_k=283.15)
    pp.create_pipe_from_parameters(gas, j[0], j[1], 1.0, 300.0)
    pp.create_pipe_from_parameters(gas, j[1], j[2], 1.0, 300.0)
    pp.create_sink(gas, j[2], 0.2)
    gas2 = pp.create_empty_network(fluid=fluid2)
    k = pp.create_junctions(gas2, 2, pn_bar=20.0, tfluid_k=283.15)
    pp.create_ext_grid(gas2, k[0], p_bar=20.0, t_k=283.15)
    pp.create_pipe_from_parameters(gas2, k[0], k[1], 0.5, 200.0)
    pp.create_sink(gas2, k[1], 0.1)
    power = ppw.create_empty_network()
    b = ppw.create_buses(power, 2, vn_kv=110.0)
    ppw.create_ext_grid(power, b[0])
    ppw.create_line_from_parameters(power, b[0], b[1], 5.0, 0.06, 0.14, 10.0, 1.0)
    add_nets_to_multinet(mn, power=power, gas=gas, gas2=gas2)
    return mn, gas, power, gas2


def helper_timeseries(case):
    """the documented helper `coupled_p2g_const_control` (ConstControl on the load + P2G coupling) placed on a random
    controller level / order pair, driven through the multinet time series: after every logged step the gas source holds
    the conversion of that step's load value, and the registered controllers sit on the requested level"""
    import pandas as pd
    import pandapower as ppw
    import pandapipes as pp
    from pandapower.timeseries import DFData, OutputWriter
    from pandapipes.multinet.control.controller.multinet_control import coupled_p2g_const_control
    from pandapipes.multinet.timeseries.run_time_series_multinet import run_timeseries
    rng = np.random.default_rng(case["seed"])
    mn, gas, power, gas2 = small_multinet(pp, ppw, case["fluid"])
    hhv = float(np.ravel(pp.get_fluid(gas).get_property("hhv"))[0])
    level = int(rng.integers(0, 3))
    order = (int(rng.integers(0, 2)), int(rng.integers(2, 4)))
    eta = float(rng.uniform(0.4, 0.95))
    sc = float(rng.choice([1.0, 0.5, 1.5]))
    T = int(rng.integers(3, 6))
    prof = pd.DataFrame({"p2g": rng.uniform(1.0, 20.0, T)})
    ld = ppw.create_load(power, 1, p_mw=0.123, scaling=sc)
    src = pp.create_source(gas, 1, 0.0)
    const, p2g = coupled_p2g_const_control(mn, ld, src, eta, profile_name="p2g", data_source=DFData(prof), order=order, level=level)
    if level > 0:
        # a controller on a lower level (late in its level's order) that settles the coupled load's scaling inside the control
        # loop: the coupling, being on a higher level, must see the settled value
        from pandapower.control.basic_controller import Controller

        class SettleScaling(Controller):
            def __init__(self, net, idx, value, **kw):
                super().__init__(net, **kw)
                self.idx, self.value, self.applied = idx, value, False

            def time_step(self, net, time):
                self.applied = False
                net.load.at[self.idx, "scaling"] = 1.0

            def control_step(self, net):
                net.load.at[self.idx, "scaling"] = self.value
                self.applied = True

            def is_converged(self, net):
                return self.applied

        SettleScaling(power, ld, sc, order=7, level=0)
    fails = []
    lv = [int(np.ravel(mn.controller.level.at[i])[0]) if np.ndim(mn.controller.level.at[i]) else int(mn.controller.level.at[i])
          for i in mn.controller.index]
    cl = [int(np.ravel(power.controller.level.at[i])[0]) if np.ndim(power.controller.level.at[i]) else int(power.controller.level.at[i])
          for i in power.controller.index]
    ow = OutputWriter(gas, range(T), output_path=None, log_variables=[("source", "mdot_kg_per_s")])
    try:
        run_timeseries(mn, range(T), max_iter_hyd=60, verbose=False)
    except Exception as e:
        return {"status": "skip:" + type(e).__name__}
    logged = np.asarray(ow.np_results["source.mdot_kg_per_s"], float)[:, 0]
    expected = prof["p2g"].values * sc * (1e3 / (hhv * 3600)) * eta
    bad = np.flatnonzero(np.abs(logged - expected) > 1e-12 * (1 + np.abs(expected)))
    if bad.size:
        fails.append({"fingerprint": "C20:helper-timeseries:written-value", "clause": "written value = scaled load x factor x efficiency, every step",
                      "detail": {"level": level, "order": list(order), "step": int(bad[0]), "written": float(logged[bad[0]]),
                                 "expected": float(expected[bad[0]]), "controller_levels": {"multinet": lv, "power": cl}}})
    return {"status": "ok", "failures": fails, "hash": "helper" + str(sorted(case.items())) , "nontrivial": level > 0,
            "tags": ["helper-timeseries", "level%d" % level], "sample": dict(case, level=level, order=list(order))}


def chain_orders(case):
    """two couplings chained through one gas net (power-led G2P writes a sink of gas, a G2G converts that sink into a source of
    gas2) with fractional controller orders, the later one created first: after run_control the source of gas2 holds the
    conversion of the value the first coupling wrote in the same run"""
    import pandapower as ppw
    import pandapipes as pp
    from pandapipes.multinet.control.controller.multinet_control import G2PControlMultiEnergy, GasToGasConversion
    from pandapipes.multinet.control.run_control_multinet import run_control
    rng = np.random.default_rng(case["seed"])
    mn, gas, power, gas2 = small_multinet(pp, ppw, case["fluid"])
    hhv = float(np.ravel(pp.get_fluid(gas).get_property("hhv"))[0])
    hhv2 = float(np.ravel(pp.get_fluid(gas2).get_property("hhv"))[0])
    e1, e2 = float(rng.uniform(0.4, 0.95)), float(rng.uniform(0.4, 0.95))
    p = float(rng.uniform(1.0, 20.0))
    o1, o2 = sorted(float(x) for x in rng.choice([0.2, 0.3, 0.4, 0.6, 0.7, 1.5, 2.0], 2, replace=False))
    sg = ppw.create_sgen(power, 1, p_mw=p)
    sk = pp.create_sink(gas, 1, 1e-4)
    src = pp.create_source(gas2, 1, 0.0)
    # the controller that has to run second is created first
    GasToGasConversion(mn, sk, src, e2, name_gas_net_from="gas", name_gas_net_to="gas2", order=o2)
    G2PControlMultiEnergy(mn, sg, sk, efficiency=e1, element_type_power="sgen", calc_gas_from_power=True, order=o1)
    try:
        run_control(mn, max_iter_hyd=60)
    except Exception as e:
        return {"status": "skip:" + type(e).__name__}
    m_sink = p / ((hhv * 3600 / 1e3) * e1)
    want = m_sink * (hhv / hhv2) * e2
    got = float(gas2.source.at[src, "mdot_kg_per_s"])
    fails = []
    if abs(got - want) > 1e-12 * (1 + abs(want)):
        fails.append({"fingerprint": "C20:chained-couplings:order", "clause": "written value = converted value of the coupled element (controller orders)",
                      "detail": {"orders": [o1, o2], "written": got, "expected": want, "sink_written": float(gas.sink.at[sk, "mdot_kg_per_s"]),
                                 "stored_orders": [float(np.ravel(x)[0]) if np.ndim(x) else float(x) for x in mn.controller.order.values]}})
    return {"status": "ok", "failures": fails, "hash": "chain" + str(sorted(case.items())), "nontrivial": True, "tags": ["chain-orders"],
            "sample": dict(case, orders=[o1, o2])}


def gen(rng):
    if rng.random() < 0.2:
        return {"chain_orders": True, "fluid": str(rng.choice(["hgas", "lgas", "hydrogen", "methane"])), "seed": int(rng.integers(0, 2 ** 31))}
    if rng.random() < 0.3:
        return {"helper_ts": True, "fluid": str(rng.choice(["hgas", "lgas", "hydrogen", "methane"])), "seed": int(rng.integers(0, 2 ** 31))}
    return {"fluid": str(rng.choice(["hgas", "lgas", "hydrogen", "methane"])), "seed": int(rng.integers(0, 2 ** 31)),
            "vector": bool(rng.random() < 0.4), "n_ctrl": int(rng.integers(1, 4)), "infeasible": bool(rng.random() < 0.15)}


def oracle(case):
    if case.get("chain_orders"):
        return chain_orders(case)
    if case.get("helper_ts"):
        return helper_timeseries(case)
    import pandapower as ppw
    import pandapipes as pp
    from pandapipes.multinet.control.controller.multinet_control import (P2GControlMultiEnergy, G2PControlMultiEnergy,
                                                                         GasToGasConversion)
    from pandapipes.multinet.control.run_control_multinet import run_control
    rng = np.random.default_rng(case["seed"])
    mn, gas, power, gas2 = small_multinet(pp, ppw, case["fluid"])
    hhv = float(np.ravel(pp.get_fluid(gas).get_property("hhv"))[0])
    hhv2 = float(np.ravel(pp.get_fluid(gas2).get_property("hhv"))[0])
    fails = []

    def fail(fp, clause, **detail):
        if not any(f["fingerprint"] == fp for f in fails):
            fails.append({"fingerprint": fp, "clause": clause, "detail": detail})

    expected = []      # (net, table, index, column, value)
    for c in range(case["n_ctrl"]):
        kind = str(rng.choice(["p2g", "g2p", "g2g"]))
        eta = float(rng.uniform(0.3, 1.0))
        k = 2 if case["vector"] else 1
        vals = rng.uniform(0.5, 20, k) if kind == "p2g" else rng.uniform(0.01, 0.3, k)
        scal = rng.choice([1.0, 0.5, 1.5], k)
        if kind == "p2g":
            lds = [ppw.create_load(power, 1, p_mw=float(v), scaling=float(s)) for v, s in zip(vals, scal)]
            srcs = [pp.create_source(gas, 1, 0.0, scaling=float(rng.choice([1.0, 2.0]))) for _ in range(k)]
            P2GControlMultiEnergy(mn, lds if case["vector"] else lds[0], srcs if case["vector"] else srcs[0], efficiency=eta)
            for v, s, si in zip(vals, scal, srcs):
                expected.append(("gas", "source", si, "mdot_kg_per_s", v * s * (1e3 / (hhv * 3600)) * eta))
        elif kind == "g2p" and rng.random() < 0.5:
            # power-led: the generators' output determines the gas consumption written to the paired sinks; the paired
            # elements carry unrelated labels in their tables (extra elements shift them, pairs may be crossed)
            for _ in range(int(rng.integers(0, 3))):
                pp.create_sink(gas, 1, float(rng.uniform(0.001, 0.01)))
            pw = rng.uniform(0.5, 20, k)
            sks = [pp.create_sink(gas, 1, 0.0) for _ in range(k)]
            sgs = [ppw.create_sgen(power, 1, p_mw=float(v), scaling=float(s)) for v, s in zip(pw, scal)]
            if case["vector"] and rng.random() < 0.5:
                sks = sks[::-1]
            G2PControlMultiEnergy(mn, sgs if case["vector"] else sgs[0], sks if case["vector"] else sks[0], efficiency=eta,
                                  element_type_power="sgen", calc_gas_from_power=True)
            for v, s, ki in zip(pw, scal, sks):
                expected.append(("gas", "sink", ki, "mdot_kg_per_s", v * s / ((hhv * 3600 / 1e3) * eta)))
        elif kind == "g2p":
            sks = [pp.create_sink(gas, 1, float(v), scaling=float(s)) for v, s in zip(vals, scal)]
            sgs = [ppw.create_sgen(power, 1, p_mw=0.0) for _ in range(k)]
            G2PControlMultiEnergy(mn, sgs if case["vector"] else sgs[0], sks if case["vector"] else sks[0], efficiency=eta,
                                  element_type_power="sgen")
            for v, s, gi in zip(vals, scal, sgs):
                expected.append(("power", "sgen", gi, "p_mw", v * s * (hhv * 3600 / 1e3) * eta))
        else:
            sks = [pp.create_sink(gas, 1, float(v), scaling=float(s)) for v, s in zip(vals, scal)]
            srcs = [pp.create_source(gas2, 1, 0.0) for _ in range(k)]
            GasToGasConversion(mn, sks if case["vector"] else sks[0], srcs if case["vector"] else srcs[0], efficiency=eta,
                               name_gas_net_from="gas", name_gas_net_to="gas2")
            for v, s, si in zip(vals, scal, srcs):
                expected.append(("gas2", "source", si, "mdot_kg_per_s", v * s * (hhv / hhv2) * eta))
    if case["infeasible"]:
        gas2.sink["mdot_kg_per_s"] = 1e150
    exc = None
    try:
        run_control(mn, max_iter_hyd=60)
    except Exception as e:
        exc = e
    conv_flags = {"gas": bool(gas.converged), "gas2": bool(gas2.converged), "power": bool(power.converged)}
    if exc is None and not all(conv_flags.values()):
        fail("C20:reported-converged-with-failed-member", "multinet converged only if every affected net converged", flags=conv_flags)
    if exc is not None and case["infeasible"]:
        return {"status": "ok", "failures": fails, "hash": str(case), "nontrivial": True, "tags": ["infeasible"],
                "sample": dict(case, outcome=type(exc).__name__)}
    if exc is not None:
        return {"status": "skip:" + type(exc).__name__}
    nets = {"gas": gas, "gas2": gas2, "power": power}
    for net_name, tbl, idx, col, val in expected:
        got = float(nets[net_name][tbl].at[idx, col])
        if abs(got - val) > 1e-12 * (1 + abs(val)):
            fail("C20:written-value:%s.%s" % (tbl, col), "written value = scaled source value x factor x efficiency", net=net_name,
                 index=int(idx), written=got, expected=float(val), vector=case["vector"])
    # every gas member net holds the results of a stand-alone calculation with the written values
    for name in ("gas", "gas2"):
        alone = copy.deepcopy(nets[name])
        try:
            pp.pipeflow(alone, max_iter_hyd=60)
        except Exception as e:
            fail("C20:standalone-fails:%s" % name, "member net = stand-alone calculation", exc=repr(e)[:120])
            continue
        d = oracles.compare_results(nets[name], alone, atol=0.0, rtol=0.0)
        if d:
            fail("C20:member-vs-standalone:%s:%s" % (d[0][0], d[0][1]), "member net = stand-alone calculation with the written values",
                 net=name, first=d[:3])
    return {"status": "ok", "failures": fails, "hash": str(sorted(case.items())), "nontrivial": case["n_ctrl"] > 1 or case["vector"],
            "tags": ["vector" if case["vector"] else "scalar", case["fluid"]], "sample": case}


def init_aggregation_check():
    """initial run of the multinet control loop with one failing member net"""
    import pandapower as ppw
    import pandapipes as pp
    from pandapipes.multinet.control.run_control_multinet import net_initialization_multinet, prepare_run_ctrl
    from pandapipes.multinet.control.controller.multinet_control import P2GControlMultiEnergy
    mn, gas, power, gas2 = small_multinet(pp, ppw, "hgas")
    ld = ppw.create_load(power, 1, p_mw=5.0)
    src = pp.create_source(gas, 1, 0.0)
    P2GControlMultiEnergy(mn, ld, src, efficiency=0.7)
    gas2.sink["mdot_kg_per_s"] = 1e150
    try:
        cv = prepare_run_ctrl(mn, None)
        for n in cv["nets"]:
            cv["nets"][n]["initial_run"] = True
        cv = net_initialization_multinet(mn, cv)
    except Exception:
        return []
    flags = {n: bool(cv["nets"][n]["converged"]) for n in cv["nets"]}
    if cv["converged"] and not all(flags.values()):
        return [{"fingerprint": "C20:initial-run-any-instead-of-all", "clause": "multinet converged only if every net converged",
                 "detail": {"member_flags": flags, "multinet_flag": bool(cv["converged"])},
                 "replay": {"case": {"init": True}}}]
    return []


def search(ctx, escalate=False):
    n = ctx.budget(96, 1500)
    if escalate:
        n = max(n, 300)
    agg = explore.explore(ctx.seed, n, gen, oracle, workers=12)
    try:
        agg["failures"].extend(init_aggregation_check())
    except Exception as e:
        agg.setdefault("errors", []).append({"error": "init check: %r" % (e,)})
    agg["rule"] = ("multinets of a power net and two gas nets (4 fluids) with 1-3 coupling controllers (P2G, G2P, gas-to-gas; scalar "
                   "and vectorised indices; scalings; efficiencies), occasionally an infeasible member net: written cells vs "
                   "scaled value x factor x efficiency, member nets bit-identical to stand-alone runs, convergence reporting")
    return agg


def replay(ctx, payload):
    if payload.get("case", {}).get("init"):
        return init_aggregation_check() or None
    explore.warm_up()
    return oracle(payload["case"]).get("failures") or None
