"""C04 — exactly the supplied part of the network is calculated, unaffected by the rest."""
import copy

import numpy as np

import corr_conn
import explore
import netgen
import oracles

GENERATORS = ["idx"]
ASSUMPTIONS = ["scipy.sparse.csgraph.breadth_first_order is modelled by n rounds of frontier expansion (validated against the "
               "real check_connectivity on every run)",
               "the search oracle predicts supply from the user-level description with its own reachability routine, "
               "independent of both the model and the implementation",
               "generated nets keep in_service flags consistent (branches at out-of-service junctions are out of service)"]

TABLE_OF = {"pipes": "pipe", "valves": "valve", "pumps": "pump", "compressors": "compressor", "flow_controls": "flow_control",
            "press_controls": "press_control", "heat_exchangers": "heat_exchanger", "heat_consumers": "heat_consumer",
            "circ_pumps_p": "circ_pump_pressure", "circ_pumps_m": "circ_pump_mass", "ext_grids": "ext_grid", "sinks": "sink",
            "sources": "source", "mass_storages": "mass_storage"}


def tie(ctx):
    bad, stats = corr_conn.run(ctx.seed, ctx.budget(600, 20000), exhaustive_k=10)
    return {"cases": stats["cases"], "disagreements": bad, "stats": stats}


def label_elements(spec):
    """give every element an explicit index (= its position) so that pruned nets keep the labels"""
    for t in netgen.BRANCH_TABLES + netgen.NODE_TABLES:
        for i, e in enumerate(spec[t]):
            e.setdefault("index", i)
    return spec


def predict(spec):
    """user-level prediction: supplied junction positions, and per table the set of positions with results"""
    nj = len(spec["junctions"])
    alive = [j["in_service"] for j in spec["junctions"]]
    adj = [[] for _ in range(nj)]   # directed adjacency

    def und(a, b):
        adj[a].append(b)
        adj[b].append(a)

    closed_pv = set()
    for v in spec["valves"]:
        if v["et"] == "pi" and not v["opened"]:
            closed_pv.add(v["element"])
    for i, e in enumerate(spec["pipes"]):
        if e["in_service"] and i not in closed_pv:
            und(e["from"], e["to"])
    for v in spec["valves"]:
        if v["et"] == "ju" and v["opened"]:
            und(v["junction"], v["element"])
    for t in ("pumps", "compressors", "heat_exchangers"):
        for e in spec[t]:
            if e["in_service"]:
                und(e["from"], e["to"])
    for e in spec["press_controls"]:
        if e["in_service"]:
            adj[e["from"]].append(e["to"])
    for e in spec["flow_controls"]:
        if e["in_service"] and not e["control_active"]:
            und(e["from"], e["to"])
    slacks = set()
    for e in spec["ext_grids"]:
        if e["in_service"] and e.get("type", "pt") in ("p", "pt") and alive[e["junction"]]:
            slacks.add(e["junction"])
    for t in ("circ_pumps_p", "circ_pumps_m"):
        for e in spec[t]:
            if e["in_service"]:
                und(e["return"], e["flow"])
                if alive[e["flow"]]:
                    slacks.add(e["flow"])
    seen = set(slacks)
    stack = list(slacks)
    while stack:
        u = stack.pop()
        for w in adj[u]:
            if w not in seen:
                seen.add(w)
                stack.append(w)
    res = {"junctions": seen}
    for t in ("pumps", "compressors", "heat_exchangers", "press_controls"):
        res[t] = {i for i, e in enumerate(spec[t]) if e["in_service"] and e["from"] in seen}
    # a pipe whose end hangs on a closed junction-pipe valve is still calculated (dead end, zero flow) when its other
    # junction is supplied: the internal valve node is reached through the pipe itself
    cut_at = {}
    for v in spec["valves"]:
        if v["et"] == "pi" and not v["opened"]:
            cut_at.setdefault(v["element"], set()).add(v["junction"])
    res["pipes"] = set()
    for i, e in enumerate(spec["pipes"]):
        if not e["in_service"]:
            continue
        ends = [j for j in (e["from"], e["to"]) if j not in cut_at.get(i, set())]
        if any(j in seen for j in ends):
            res["pipes"].add(i)
    res["flow_controls"] = {i for i, e in enumerate(spec["flow_controls"]) if e["in_service"] and e["from"] in seen and
                            (not e["control_active"] or e["to"] in seen)}
    res["heat_consumers"] = {i for i, e in enumerate(spec["heat_consumers"]) if e["in_service"] and e["from"] in seen and e["to"] in seen}
    res["valves"] = {i for i, v in enumerate(spec["valves"]) if v["opened"] and v["junction"] in seen}
    for t in ("circ_pumps_p", "circ_pumps_m"):
        res[t] = {i for i, e in enumerate(spec[t]) if e["in_service"] and e["return"] in seen}
    for t in ("sinks", "sources", "mass_storages", "ext_grids"):
        res[t] = {i for i, e in enumerate(spec[t]) if e["in_service"] and e["junction"] in seen}
    return res


def prune(spec, pred):
    """the network with every unsupplied / out-of-service element deleted"""
    s2 = netgen.empty_spec(spec["fluid"])
    s2["options"] = dict(spec["options"])
    keep = sorted(pred["junctions"])
    pos = {old: new for new, old in enumerate(keep)}
    s2["junctions"] = [copy.deepcopy(spec["junctions"][k]) for k in keep]
    pipe_pos = {}
    for t in netgen.BRANCH_TABLES + netgen.NODE_TABLES:
        if t == "valves":
            continue
        for i in sorted(pred[t]):
            e = copy.deepcopy(spec[t][i])
            for key in ("from", "to", "junction", "return", "flow", "controlled"):
                if key in e:
                    if e[key] not in pos:
                        return None          # a calculated element refers to an unsupplied junction (e.g. remote control)
                    e[key] = pos[e[key]]
            if t == "pipes":
                pipe_pos[i] = len(s2[t])
            s2[t].append(e)
    for i, v0 in enumerate(spec["valves"]):
        # a closed junction-pipe valve is not "absent": it cuts its pipe end, so it stays with the pipe
        if not (i in pred["valves"] or (v0["et"] == "pi" and v0["element"] in pipe_pos and v0["junction"] in pos)):
            continue
        v = copy.deepcopy(v0)
        v["junction"] = pos[v["junction"]]
        if v["et"] == "ju":
            if v["element"] not in pos:
                return None
            v["element"] = pos[v["element"]]
        else:
            if v["element"] not in pipe_pos:
                continue
            v["element"] = pipe_pos[v["element"]]
        s2["valves"].append(v)
    return s2


def gen_directed(rng):
    """a directed branch (pressure controller) whose inlet junction is cut off while its outlet side is supplied from another
    grid, embedded at a random junction position: the controller and its inlet must report nothing"""
    s = netgen.empty_spec(str(rng.choice(["water", "lgas"])))
    n = 5
    order = [int(x) for x in rng.permutation(n)]           # position of the logical junctions 0..4 in the table
    labels = netgen._labels(rng, n, str(rng.choice(["contiguous", "shuffled", "sparse"])))
    pos = {logical: order.index(logical) for logical in range(n)}
    s["junctions"] = [None] * n
    for logical in range(n):
        s["junctions"][pos[logical]] = {"pn_bar": 5.0, "tfluid_k": 293.15, "height_m": 0.0, "in_service": True,
                                         "index": labels[pos[logical]]}
    J = lambda k: pos[k]
    pipe = lambda a, b, on: {"from": J(a), "to": J(b), "length_km": 0.2, "d_mm": 100.0, "k_mm": 0.1, "sections": 1, "loss": 0.0,
                             "u_w_per_m2k": 0.0, "text_k": 293.15, "in_service": on}
    s["ext_grids"] = [{"junction": J(0), "p_bar": 6.0, "t_k": 293.15, "type": "pt", "in_service": True},
                      {"junction": J(4), "p_bar": 4.0, "t_k": 293.15, "type": "pt", "in_service": True}]
    s["pipes"] = [pipe(0, 1, False), pipe(2, 3, True), pipe(3, 4, True)]          # feeder of junction 1 is out of service
    s["press_controls"] = [{"from": J(1), "to": J(2), "controlled": J(2), "p_bar": 4.5,
                            "control_active": bool(rng.random() < 0.6), "loss": 0.0, "in_service": True}]
    s["sinks"] = [{"junction": J(2), "mdot": 0.05 if s["fluid"] != "water" else 0.5, "scaling": 1.0, "in_service": True}]
    s["options"] = {"friction_model": "nikuradse", "use_numba": bool(rng.random() < 0.5), "nonlinear_method": "constant",
                    "mode": "hydraulics", "max_iter_hyd": 60, "max_iter_therm": 60, "max_iter_bidirect": 60}
    return s


def gen(rng):
    r = rng.random()
    if r < 0.06:
        s = gen_directed(rng)
        s["c04_directed"] = True
        return label_elements(s)
    if r < 0.75:
        s = netgen.gen_hydraulic(rng, features={"p_outage": 0.8, "p_pipe_valve": 0.1})
        # extra outage pressure: several flags at once
        for _ in range(int(rng.integers(0, 4))):
            c = rng.random()
            if c < 0.5 and s["pipes"]:
                s["pipes"][int(rng.integers(0, len(s["pipes"])))]["in_service"] = False
            elif c < 0.7 and s["ext_grids"]:
                s["ext_grids"][int(rng.integers(0, len(s["ext_grids"])))]["in_service"] = False
            elif c < 0.78 and s["flow_controls"]:
                s["flow_controls"][0]["control_active"] = not s["flow_controls"][0]["control_active"]
            elif c < 0.9:
                # any special branch out of service while both its junctions may stay supplied through other paths
                cand = [(t, i) for t in ("flow_controls", "pumps", "compressors", "press_controls") for i in range(len(s[t]))]
                if cand:
                    t, i = cand[int(rng.integers(0, len(cand)))]
                    s[t][i]["in_service"] = False
            elif len(s["junctions"]) > 2:
                s["junctions"][int(rng.integers(1, len(s["junctions"])))]["in_service"] = False
        netgen.fix_service_consistency(s)
    elif r < 0.9:
        s = netgen.gen_heat_loop(rng)
        if rng.random() < 0.5 and s["heat_consumers"]:
            s["heat_consumers"][int(rng.integers(0, len(s["heat_consumers"])))]["in_service"] = False
        if rng.random() < 0.3:
            s["pipes"][int(rng.integers(0, len(s["pipes"])))]["in_service"] = False
        s["options"]["mode"] = str(rng.choice(["hydraulics", "sequential"]))
    else:
        s = netgen.gen_heat_tree(rng)
        if rng.random() < 0.6:
            s["pipes"][int(rng.integers(0, len(s["pipes"])))]["in_service"] = False
        if rng.random() < 0.5:
            # a part that is supplied hydraulically but reached by no temperature source: which elements carry thermal results
            # must not depend on whether the thermal system is solved after (sequential) or together with the hydraulics
            netgen.add_thermal_island(rng, s)
            s["c04_thermal_modes"] = True
    return label_elements(s)


def nan_rows(df, cols):
    cols = [c for c in cols if c in df.columns]
    return df[cols].isna().all(axis=1)


def thermal_pattern(spec):
    """NaN pattern of every temperature column, sequential vs bidirectional"""
    pats = {}
    for mode in ("sequential", "bidirectional"):
        net, e = netgen.try_run(spec, **dict(oracles.TIGHT, mode=mode))
        if e is not None:
            return None, "skip:%s:%s" % (mode, type(e).__name__)
        pat = {}
        for t in oracles.res_tables(net):
            for c in net[t].columns:
                if c.startswith("t_") or c == "t_k":
                    pat[(t, c)] = tuple(bool(x) for x in np.isnan(net[t][c].values.astype(float)))
        pats[mode] = pat
    fails = []
    for key in sorted(pats["sequential"]):
        a, b = pats["sequential"][key], pats["bidirectional"].get(key)
        if b is not None and a != b:
            rows = [i for i, (x, y) in enumerate(zip(a, b)) if x != y][:4]
            fails.append({"fingerprint": "C04:thermal-result-pattern:%s.%s" % key, "clause": "elements outside the thermal system report NaN temperatures",
                          "detail": {"table": key[0], "column": key[1], "rows": rows,
                                     "nan_in_sequential": [a[i] for i in rows], "nan_in_bidirectional": [b[i] for i in rows]}})
            break
    return fails, None


def oracle(spec):
    from pandapipes.pf.pipeflow_setup import PipeflowNotConverged
    if spec.get("c04_thermal_modes"):
        fails, skip = thermal_pattern(spec)
        if skip:
            return {"status": skip}
        return {"status": "ok", "failures": fails, "hash": netgen.structure_hash(spec) + "TM", "nontrivial": True, "tags": ["thermal-modes"],
                "sample": dict(netgen.summarize(spec), thermal_island=True)}
    pred = predict(spec)
    net, e = netgen.try_run(spec, **oracles.TIGHT)
    fails = []
    if not pred["junctions"]:
        if not isinstance(e, PipeflowNotConverged):
            fails.append({"fingerprint": "C04:no-supply-must-fail", "clause": "no supplied junction => calculation fails",
                          "detail": {"outcome": repr(e)}})
        return {"status": "ok", "failures": fails, "hash": netgen.structure_hash(spec), "nontrivial": True, "tags": ["no-supply"]}
    if e is not None and spec.get("c04_directed"):
        # a small, well-conditioned net whose supplied part (second grid, two pipes, a sink) is trivially solvable: the cut-off
        # inlet side of the directed branch must not keep the calculation from returning
        fails.append({"fingerprint": "C04:supplied-part-not-calculated:%s" % type(e).__name__,
                      "clause": "the supplied part is calculated, everything else reports NaN", "detail": {"exc": repr(e)[:200]}})
        return {"status": "ok", "failures": fails, "hash": netgen.structure_hash(spec), "nontrivial": True, "tags": ["directed"]}
    if e is not None:
        return {"status": "skip:" + type(e).__name__}
    labels = [j["index"] for j in spec["junctions"]]
    sup_real = {k for k, lab in enumerate(labels) if not np.isnan(net.res_junction.at[lab, "p_bar"])}
    if sup_real != pred["junctions"]:
        d = sorted(sup_real ^ pred["junctions"])
        fails.append({"fingerprint": "C04:junction-supply-pattern", "clause": "supplied iff reachable",
                      "detail": {"junction_positions": d[:5], "real_supplied": [k in sup_real for k in d[:5]]}})
    for t, tbl in TABLE_OF.items():
        if not spec[t] or ("res_" + tbl) not in net:
            continue
        r = net["res_" + tbl]
        col = "mdot_kg_per_s" if t in netgen.NODE_TABLES else "mdot_from_kg_per_s"
        for i, el in enumerate(spec[t]):
            has_res = not np.isnan(r.at[el["index"], col])
            if has_res != (i in pred[t]):
                if (t == "ext_grids" and has_res and el["in_service"] and not spec["junctions"][el["junction"]]["in_service"]
                        and r.at[el["index"], col] == 0.0):
                    fails.append({"fingerprint": "C04:ext_grid-on-out-of-service-junction-reports-zero",
                                  "clause": "everything else reports NaN", "detail": {"ext_grid": el["index"]}})
                    break
                fails.append({"fingerprint": "C04:result-pattern:%s" % tbl, "clause": "element calculated iff in service and supplied",
                              "detail": {"table": tbl, "index": el["index"], "has_result": bool(has_res), "predicted": i in pred[t]}})
                break
    # the supplied part equals the pruned network
    if not fails:
        s2 = prune(spec, pred)
        if s2 is not None:
            net2, e2 = netgen.try_run(s2, **oracles.TIGHT)
            if isinstance(e2, PipeflowNotConverged):
                return {"status": "skip:pruned-net-not-converged"}    # equivalence is only claimed for returned runs
            if e2 is not None:
                fails.append({"fingerprint": "C04:pruned-net-fails", "clause": "supplied part = pruned net",
                              "detail": {"exc": repr(e2)[:200]}})
            else:
                if oracles.degenerate(net) or oracles.degenerate(net2):
                    return {"status": "skip:degenerate"}
                oracles.mask_zero_flow_friction(net, net2)
                d = oracles.compare_results(net2, net, atol=1e-7, rtol=1e-6, subset=True)
                if d:
                    fails.append({"fingerprint": "C04:pruned-differs:%s:%s" % (d[0][0], d[0][1]),
                                  "clause": "supplied part = pruned net", "detail": {"first": d[:3]}})
    n_un = len(spec["junctions"]) - len(pred["junctions"])
    return {"status": "ok", "failures": fails, "hash": netgen.structure_hash(spec), "nontrivial": n_un > 0,
            "tags": ["unsupplied:%d" % min(n_un, 3), spec["options"].get("mode", "hydraulics")],
            "sample": dict(netgen.summarize(spec), unsupplied_junctions=n_un)}


def search(ctx, escalate=False):
    n = ctx.budget(240, 6000)
    if escalate:
        n = max(n, 1500)
    agg = explore.explore(ctx.seed, n, gen, oracle)
    agg["rule"] = ("generated nets with heavy outage patterns (pipes, junctions, ext grids, valves, controllers, consumers); "
                   "NaN pattern of res_junction and every res_<element> vs. an independent user-level reachability; results of the "
                   "supplied part vs. the net with everything else deleted (1e-9); no supply => PipeflowNotConverged; "
                   "non-trivial = at least one unsupplied junction")
    return agg


def replay(ctx, payload):
    explore.warm_up()
    return oracle(payload["case"]).get("failures") or None
