"""C03 — prescribed pressures, flows, lifts and ratios are met exactly."""
from fractions import Fraction

import numpy as np

import corr_assemble
import explore
import netgen
import oracles
from common import LeanDriver

GENERATORS = ["constants", "idx", "kernels", "kernel_runner"]
ASSUMPTIONS = ["set-points are compared at 1e-9 relative on runs with tightened tolerances; pump lift at 1e-6 relative",
               "pump curves are evaluated with the repository's PumpStdType.get_pressure (that class is property C19)"]
PN, TN = 1.01325, 273.15


def pamb(h):
    return PN * (1 - h * 0.0065 / 288.15) ** 5.255


def corr_fixed(seed, n):
    """model `setEntries` vs the real set_fixed_node_entries over several calls on one node pit"""
    from pandapipes import idx_node as inode
    from pandapipes.component_models.component_toolbox import set_fixed_node_entries
    from pandapipes.component_models.junction_component import Junction
    rng = np.random.default_rng([seed, 303])
    lines, reals = [], []
    for _ in range(n):
        nj = int(rng.integers(1, 5))
        npit = np.zeros((nj, inode.node_cols))
        v0 = rng.integers(1, 9, nj).astype(float)
        npit[:, inode.PINIT] = v0
        net = {"_lookups": {"node_index": {"junction": np.arange(nj)}}, "_options": {"use_numba": bool(rng.random() < 0.5)}}
        groups = [[] for _ in range(nj)]
        for call in range(int(rng.integers(1, 4))):
            k = int(rng.integers(1, 6))
            junctions = rng.integers(0, nj, k)
            types = rng.choice(["p", "pt", "t"], k)
            values = rng.integers(1, 20, k).astype(float)
            set_fixed_node_entries(net, npit, junctions, types, values, Junction, "p")
            for j in range(nj):
                m = (junctions == j) & np.isin(types, ["p", "pt"])
                if m.any():
                    groups[j].append((float(values[m].sum()), int(m.sum())))
        for j in range(nj):
            lines.append("fixed %d/1 :: %s" % (int(v0[j]), " ; ".join("%d/1 %d" % (int(s), c) for s, c in groups[j])))
            reals.append((float(npit[j, inode.PINIT]), int(npit[j, inode.EXT_GRID_OCCURENCE]),
                          npit[j, inode.NODE_TYPE] == inode.P, bool(groups[j])))
    out = LeanDriver().run(lines)
    bad = []
    for line, o, (rv, rc, rtype, any_group) in zip(lines, out, reals):
        mv, mc = o.split()
        mv = float(Fraction(mv))
        if abs(mv - rv) > 1e-12 * max(1, abs(rv)) or int(mc) != rc or (rtype != any_group):
            bad.append({"case": line, "real": [rv, rc, bool(rtype)], "model": [mv, int(mc)]})
    return bad, {"nodes": len(lines)}


def tie(ctx):
    n = ctx.budget(300, 6000)
    abad, astats = corr_assemble.run(ctx.seed, n, modes=("hyd",))
    fbad, fstats = corr_fixed(ctx.seed, ctx.budget(300, 6000))
    # compressor / flow controller / pressure controller / heat consumer class methods: generated model vs real method
    import kernel_selfcheck
    cbad, cstats = kernel_selfcheck.run_components(ctx.seed, ctx.budget(400, 8000))
    return {"cases": n + fstats["nodes"] + sum(v["inputs"] for v in cstats.values()), "disagreements": abad + fbad + cbad,
            "stats": {"assembly": astats, "fixed_mean": fstats, "components": cstats}}


def gen(rng):
    r = rng.random()
    if r < 0.7:
        s = netgen.gen_hydraulic(rng, features={"p_special": 0.45, "p_fc": 0.3, "p_outage": 0.2})
        # several pressure-fixing grids on one junction, mixed in/out of service
        if rng.random() < 0.5:
            j = s["ext_grids"][0]["junction"]
            p0 = s["ext_grids"][0]["p_bar"]
            for _ in range(int(rng.integers(1, 4))):
                s["ext_grids"].append({"junction": j, "p_bar": p0 * float(rng.uniform(0.95, 1.05)), "t_k": s["ext_grids"][0]["t_k"],
                                       "type": str(rng.choice(["p", "pt", "t"])), "in_service": bool(rng.random() < 0.75)})
        if s["pumps"] and rng.random() < 0.6:
            # a pump station: a stand-by unit of another type (out of service) next to a running pump, anywhere in the table
            run = s["pumps"][int(rng.integers(0, len(s["pumps"])))]
            other = [t for t in ("P1", "P2", "P3") if t != run["std_type"]]
            spare = {"from": run["from"], "to": run["to"], "std_type": str(rng.choice(other)), "in_service": False}
            s["pumps"].insert(int(rng.integers(0, len(s["pumps"]) + 1)), spare)
        return s
    s = netgen.gen_heat_loop(rng)
    if rng.random() < 0.35:
        s["c03_transient"] = [float(x) for x in rng.uniform(0.7, 1.3, int(rng.integers(2, 5)))]
        return s
    s["options"]["mode"] = "hydraulics"
    return s


def transient_sequence(spec):
    """a short transient step sequence (internal tables re-used from step to step): every set-point clause after every step"""
    import pandapipes as pp
    net = netgen.build(spec)
    base = net.sink.mdot_kg_per_s.values.copy() if len(net.sink) else None
    out = None
    for step, f in enumerate(spec["c03_transient"]):
        if base is not None:
            net.sink["mdot_kg_per_s"] = base * f
        try:
            pp.pipeflow(net, **dict(spec["options"], **dict(oracles.TIGHT, mode="sequential", transient=True, dt=60.0,
                                                            simulation_time_step=step)))
        except Exception as e:
            return {"status": "skip:transient:" + type(e).__name__}
        out = oracle(spec, net=net)
        if out.get("failures"):
            for fl in out["failures"]:
                fl["fingerprint"] += ":transient-step"
                fl.setdefault("detail", {})["step"] = step
            break
    out["hash"] = out.get("hash", "") + "T%d" % len(spec["c03_transient"])
    out["tags"] = ["transient"]
    return out


def oracle(spec, net=None):
    if net is None and spec.get("c03_transient"):
        return transient_sequence(spec)
    if net is None:
        net, e = netgen.try_run(spec, **oracles.TIGHT)
        if e is not None:
            return {"status": "skip:" + type(e).__name__}
    fails = []

    def fail(fp, clause, **detail):
        if not any(f["fingerprint"] == fp for f in fails):
            fails.append({"fingerprint": fp, "clause": clause, "detail": detail})

    pj = net.res_junction.p_bar
    h = net.junction.height_m
    sup = set(pj.index[~np.isnan(pj.values)])
    # fixed pressures: mean of the in-service p-type grids (and circulation pumps' flow pressure) per junction
    fixed = {}
    if oracles.has(net, "ext_grid"):
        eg = net.ext_grid
        for idx in eg.index:
            if eg.at[idx, "in_service"] and eg.at[idx, "type"] in ("p", "pt"):
                fixed.setdefault(int(eg.at[idx, "junction"]), []).append(float(eg.at[idx, "p_bar"]))
    for tbl in ("circ_pump_pressure", "circ_pump_mass"):
        if oracles.has(net, tbl):
            t = net[tbl]
            for idx in t.index:
                if t.at[idx, "in_service"]:
                    fixed.setdefault(int(t.at[idx, "flow_junction"]), []).append(float(t.at[idx, "p_flow_bar"]))
    for j, vals in fixed.items():
        if j in sup and abs(pj.at[j] - np.mean(vals)) > 1e-9 * (1 + abs(np.mean(vals))):
            fail("C03:fixed-pressure", "junction has the (mean) fixed pressure", junction=j, reported=float(pj.at[j]), values=vals)
    if oracles.has(net, "press_control"):
        t, r = net.press_control, net.res_press_control
        for idx in t.index:
            cj = int(t.at[idx, "controlled_junction"])
            if t.at[idx, "in_service"] and t.at[idx, "control_active"] and not np.isnan(r.at[idx, "mdot_from_kg_per_s"]):
                if abs(pj.at[cj] - t.at[idx, "controlled_p_bar"]) > 1e-9 * (1 + abs(t.at[idx, "controlled_p_bar"])):
                    fail("C03:controlled-pressure", "controlled junction has the controlled pressure", index=int(idx),
                         reported=float(pj.at[cj]), set=float(t.at[idx, "controlled_p_bar"]))
    if oracles.has(net, "flow_control"):
        t, r = net.flow_control, net.res_flow_control
        for idx in t.index:
            m = r.at[idx, "mdot_from_kg_per_s"]
            if t.at[idx, "in_service"] and t.at[idx, "control_active"] and not np.isnan(m):
                if abs(m - t.at[idx, "controlled_mdot_kg_per_s"]) > 1e-9 * (1 + abs(m)):
                    fail("C03:flow-control", "active flow controller carries its set flow", index=int(idx), reported=float(m),
                         set=float(t.at[idx, "controlled_mdot_kg_per_s"]))
    if oracles.has(net, "circ_pump_mass"):
        t, r = net.circ_pump_mass, net.res_circ_pump_mass
        for idx in t.index:
            m = r.at[idx, "mdot_from_kg_per_s"]
            if t.at[idx, "in_service"] and not np.isnan(m) and abs(m - t.at[idx, "mdot_flow_kg_per_s"]) > 1e-9 * (1 + abs(m)):
                fail("C03:circ-pump-mass", "mass circulation pump carries its set flow", index=int(idx), reported=float(m),
                     set=float(t.at[idx, "mdot_flow_kg_per_s"]))
    if oracles.has(net, "circ_pump_pressure"):
        t, r = net.circ_pump_pressure, net.res_circ_pump_pressure
        for idx in t.index:
            if t.at[idx, "in_service"] and not np.isnan(r.at[idx, "p_to_bar"]):
                lift = r.at[idx, "p_to_bar"] - r.at[idx, "p_from_bar"]
                hf, ht = h.at[int(t.at[idx, "return_junction"])], h.at[int(t.at[idx, "flow_junction"])]
                if hf == ht and abs(lift - t.at[idx, "plift_bar"]) > 1e-9 * (1 + abs(lift)):
                    fail("C03:circ-pump-pressure", "pressure circulation pump lifts by its set lift", index=int(idx),
                         reported=float(lift), set=float(t.at[idx, "plift_bar"]))
    if oracles.has(net, "compressor"):
        t, r = net.compressor, net.res_compressor
        for idx in t.index:
            m = r.at[idx, "mdot_from_kg_per_s"]
            if t.at[idx, "in_service"] and not np.isnan(m) and m > 1e-7:
                fj, tj = int(t.at[idx, "from_junction"]), int(t.at[idx, "to_junction"])
                if h.at[fj] != h.at[tj]:
                    continue
                pf, pt = r.at[idx, "p_from_bar"] + pamb(h.at[fj]), r.at[idx, "p_to_bar"] + pamb(h.at[tj])
                if abs(pt - t.at[idx, "pressure_ratio"] * pf) > 1e-8 * pt:
                    fail("C03:compressor-ratio", "compressor produces its absolute pressure ratio", index=int(idx),
                         p_from_abs=float(pf), p_to_abs=float(pt), ratio=float(t.at[idx, "pressure_ratio"]))
    if oracles.has(net, "pump"):
        t, r = net.pump, net.res_pump
        for idx in t.index:
            m = r.at[idx, "mdot_from_kg_per_s"]
            if not t.at[idx, "in_service"] or np.isnan(m) or abs(m) < 1e-6:
                continue
            st = net.std_types["pump"][t.at[idx, "std_type"]]
            vcol = "vdot_m3_per_s" if "vdot_m3_per_s" in r.columns else None
            if m < 0:
                if abs(r.at[idx, "deltap_bar"]) > 1e-9:
                    fail("C03:pump-reverse-lift", "zero lift for reverse flow", index=int(idx), deltap=float(r.at[idx, "deltap_bar"]))
            elif vcol:
                exp = float(st.get_pressure(r.at[idx, vcol]))
                if abs(r.at[idx, "deltap_bar"] - exp) > 1e-6 * (1 + abs(exp)):
                    fail("C03:pump-lift-vs-reported-vdot", "pump lift = curve at the reported volume flow", index=int(idx),
                         reported=float(r.at[idx, "deltap_bar"]), curve_at_reported_vdot=exp, vdot=float(r.at[idx, vcol]),
                         t_from_k=float(r.at[idx, "t_from_k"]))
    for tbl, sign in (("sink", 1), ("source", 1), ("mass_storage", 1)):
        if oracles.has(net, tbl):
            t, r = net[tbl], net["res_" + tbl]
            for idx in t.index:
                j = int(t.at[idx, "junction"])
                exp = t.at[idx, "mdot_kg_per_s"] * t.at[idx, "scaling"]
                rep = r.at[idx, "mdot_kg_per_s"]
                if t.at[idx, "in_service"] and j in sup:
                    if np.isnan(rep) or abs(rep - exp) > 1e-12 * (1 + abs(exp)):
                        fail("C03:const-flow:%s" % tbl, "reports mdot*scaling", index=int(idx), reported=float(rep), expected=float(exp))
    kinds = [t for t in ("press_controls", "flow_controls", "pumps", "compressors", "circ_pumps_p", "circ_pumps_m") if spec[t]]
    return {"status": "ok", "failures": fails, "hash": netgen.structure_hash(spec), "nontrivial": bool(kinds) or len(spec["ext_grids"]) > 1,
            "tags": kinds or ["plain"], "sample": netgen.summarize(spec)}


def search(ctx, escalate=False):
    n = ctx.budget(240, 6000)
    if escalate:
        n = max(n, 1500)
    agg = explore.explore(ctx.seed, n, gen, oracle)
    agg["rule"] = ("generated nets rich in controllers, pumps, compressors, circulation pumps and several (in/out of service, "
                   "p/pt/t) external grids per junction; every set-point clause of the property evaluated on res_* tables; "
                   "non-trivial = net with at least one such component or several grids")
    return agg


def replay(ctx, payload):
    explore.warm_up()
    return oracle(payload["case"]).get("failures") or None
