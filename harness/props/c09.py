"""C09 — physically equivalent descriptions of a network give identical results."""
import copy

import numpy as np

import explore
import kernel_selfcheck
import netgen
import oracles

GENERATORS = ["constants", "idx", "kernels", "kernel_runner"]
ASSUMPTIONS = ["equivalent descriptions are compared on runs with tightened tolerances (pressures/temperatures 1e-6 abs, flows "
               "1e-3 of the largest flow of the column: nearly stagnant branches are ill-conditioned)",
               "ext_grid.t_k equals tfluid_k in generated nets (otherwise the property temperature of a branch depends on its "
               "declared direction through the pit initialisation order, a separate known effect)"]
REWRITES = ["reverse", "split_series", "one_section", "aggregate", "source_as_sink", "drop_disabled", "shift_pressure"]


def tie(ctx):
    kbad, kstats = kernel_selfcheck.run(ctx.seed, ctx.budget(1500, 30000))
    keep = ("hydIncomp", "hydComp", "realDensity")
    return {"cases": sum(v["inputs"] for k, v in kstats.items() if k.startswith(keep)),
            "disagreements": [b for b in kbad if b.get("kernel", "").startswith(keep)],
            "stats": {k: v for k, v in kstats.items() if k.startswith(keep)}}


def gen(rng):
    r = rng.random()
    if r < 0.65:
        s = netgen.gen_hydraulic(rng, features={"p_outage": 0.3, "p_pipe_valve": 0.0, "p_vary_t": 0.0, "p_fc": 0.3})
    elif r < 0.85:
        s = netgen.gen_heat_tree(rng)
    else:
        s = netgen.gen_heat_loop(rng)
    for t in netgen.BRANCH_TABLES + netgen.NODE_TABLES:
        for i, e in enumerate(s[t]):
            e["index"] = i
    for k, j in enumerate(s["junctions"]):
        j["index"] = k
    # uniform start temperature equal to the feed temperature (see ASSUMPTIONS); a quarter of the thermal nets keeps
    # non-uniform start temperatures and is aimed at the known initialisation-order effect
    feeds = [e["t_k"] for e in s["ext_grids"]] + [e["t_flow_k"] for t in ("circ_pumps_p", "circ_pumps_m") for e in s[t]]
    s["c09_uniform_T"] = bool(rng.random() < 0.75)
    if s["c09_uniform_T"] and feeds:
        for j in s["junctions"]:
            j["tfluid_k"] = feeds[0]
    gas = s["fluid"] != "water"
    choices = [w for w in REWRITES if not (gas and w in ("one_section", "shift_pressure"))]
    s["c09"] = {"rewrite": str(rng.choice(choices)), "seed": int(rng.integers(0, 2 ** 31)), "shift": float(rng.uniform(0.5, 3.0))}
    if s["c09"]["rewrite"] == "drop_disabled":
        # make sure elements of every kind are among the switched-off ones (not only pipes): an element out of service equals
        # its absence, also when both its junctions stay supplied through other branches
        cand = [(t, i) for t in ("flow_controls", "heat_consumers", "heat_exchangers", "pumps", "compressors", "press_controls",
                                 "sinks", "sources") for i in range(len(s[t]))]
        for k in rng.permutation(len(cand))[:int(rng.integers(1, 3))]:
            t, i = cand[int(k)]
            s[t][i]["in_service"] = False
    if s["c09"]["rewrite"] == "split_series" and r < 0.65 and rng.random() < 0.6:
        # given, non-uniform junction temperatures (hydraulics mode): a sectioned pipe interpolates them linearly along its
        # internal nodes, exactly what the series of pipes with interpolated junction temperatures describes
        t0 = s["junctions"][0]["tfluid_k"]
        for j in s["junctions"]:
            j["tfluid_k"] = float(np.clip(t0 + rng.uniform(-8, 45 if not gas else 30), 278.15, 363.15))
    return s


def rewrite(spec):
    """returns (spec2, joiner) where joiner says how results of the two descriptions correspond"""
    v = spec["c09"]
    rng = np.random.default_rng(v["seed"])
    s2 = copy.deepcopy(spec)
    info = {"flip": {}, "skip_tables": set(), "p_shift": 0.0}
    w = v["rewrite"]
    if w == "reverse":
        for t in ("pipes", "heat_exchangers"):
            for e in s2[t]:
                if rng.random() < 0.5:
                    e["from"], e["to"] = e["to"], e["from"]
                    info["flip"].setdefault(t, set()).add(e["index"])
        for e in s2["valves"]:
            if e["et"] == "ju" and rng.random() < 0.5:
                e["junction"], e["element"] = e["element"], e["junction"]
                info["flip"].setdefault("valves", set()).add(e["index"])
    elif w == "split_series":
        cand = [i for i, p in enumerate(s2["pipes"]) if p["sections"] > 1 and p["in_service"]]
        if not cand:
            return None, None
        i = int(rng.choice(cand))
        p = s2["pipes"][i]
        n = p["sections"]
        ja, jb = s2["junctions"][p["from"]], s2["junctions"][p["to"]]
        nodes = [p["from"]]
        for k in range(1, n):
            s2["junctions"].append({"pn_bar": ja["pn_bar"], "tfluid_k": ja["tfluid_k"] + (jb["tfluid_k"] - ja["tfluid_k"]) * k / n,
                                    "height_m": ja["height_m"] + (jb["height_m"] - ja["height_m"]) * k / n,
                                    "in_service": True, "index": 10 ** 6 + k})
            nodes.append(len(s2["junctions"]) - 1)
        nodes.append(p["to"])
        base = dict(p, sections=1, length_km=p["length_km"] / n, loss=p["loss"] / n)
        first = True
        for k in range(n):
            q = dict(base, **{"from": nodes[k], "to": nodes[k + 1]})
            if first:
                q["index"] = p["index"]
                s2["pipes"][i] = q
                first = False
            else:
                q["index"] = 10 ** 6 + k
                s2["pipes"].append(q)
        info["split_pipe"] = p["index"]
        info["last_piece"] = 10 ** 6 + n - 1
    elif w == "one_section":
        changed = False
        for p in s2["pipes"]:
            if p["sections"] > 1:
                p["sections"] = 1
                changed = True
        if not changed or spec["options"].get("mode", "hydraulics") != "hydraulics":
            return None, None
    elif w == "aggregate":
        for t in ("sinks", "sources"):
            byj = {}
            for e in s2[t]:
                if e["in_service"]:
                    byj.setdefault(e["junction"], []).append(e)
            new = [e for e in s2[t] if not e["in_service"]]
            for j, es in byj.items():
                tot = sum(e["mdot"] * e["scaling"] for e in es)
                new.append(dict(es[0], mdot=tot, scaling=1.0))
            if len(new) == len(s2[t]) and t == "sources":
                pass
            s2[t] = new
        info["skip_tables"] |= {"res_sink", "res_source"}
    elif w == "source_as_sink":
        if not s2["sources"]:
            return None, None
        nxt = max([e["index"] for e in s2["sinks"]] + [-1]) + 1
        for e in s2["sources"]:
            s2["sinks"].append(dict(e, mdot=-e["mdot"], index=nxt))
            nxt += 1
        s2["sources"] = []
        info["skip_tables"] |= {"res_sink", "res_source"}
    elif w == "drop_disabled":
        changed = False
        for t in netgen.BRANCH_TABLES + netgen.NODE_TABLES:
            if t == "valves":
                keep = [e for e in s2[t] if e["opened"] or e["et"] == "pi"]
            else:
                keep = [e for e in s2[t] if e["in_service"]]
            changed |= len(keep) != len(s2[t])
            if t == "pipes" and len(keep) != len(s2[t]):
                if any(vv["et"] == "pi" for vv in s2["valves"]):
                    return None, None
            s2[t] = keep
        if not changed:
            return None, None
    elif w == "shift_pressure":
        if s2["pumps"] or s2["compressors"]:
            pass
        c = v["shift"]
        for e in s2["ext_grids"]:
            e["p_bar"] += c
        for t in ("circ_pumps_p", "circ_pumps_m"):
            for e in s2[t]:
                e["p_flow_bar"] += c
        for e in s2["press_controls"]:
            e["p_bar"] += c
        for j in s2["junctions"]:
            j["pn_bar"] += c
        info["p_shift"] = c
    return s2, info


NAME = {"pipes": "pipe", "valves": "valve", "heat_exchangers": "heat_exchanger"}


def normalise(net_b, info):
    """map the results of the rewritten description back to the original orientation / pressure level"""
    for t, idxs in info["flip"].items():
        r = net_b["res_" + NAME[t]]
        for idx in idxs:
            if idx not in r.index:
                continue
            row = r.loc[idx].copy()
            for a, b in (("p_from_bar", "p_to_bar"), ("t_from_k", "t_to_k"), ("v_from_m_per_s", "v_to_m_per_s"),
                         ("normfactor_from", "normfactor_to")):
                if a in r.columns and b in r.columns:
                    r.at[idx, a], r.at[idx, b] = row[b], row[a]
            if "mdot_from_kg_per_s" in r.columns:
                r.at[idx, "mdot_from_kg_per_s"], r.at[idx, "mdot_to_kg_per_s"] = row["mdot_to_kg_per_s"], row["mdot_from_kg_per_s"]
            for c in ("v_from_m_per_s", "v_to_m_per_s"):
                if c in r.columns:
                    r.at[idx, c] = -r.at[idx, c]
            gas = "v_from_m_per_s" in r.columns         # gases report the friction loss as an absolute value
            for c in ("v_mean_m_per_s", "vdot_m3_per_s", "vdot_norm_m3_per_s") + (() if gas else ("dp_friction_loss_bar",)):
                if c in r.columns:
                    r.at[idx, c] = -row[c]
    if info["p_shift"]:
        for t in oracles.res_tables(net_b):
            for c in net_b[t].columns:
                if c in ("p_bar", "p_from_bar", "p_to_bar"):
                    net_b[t][c] = net_b[t][c] - info["p_shift"]


def oracle(spec):
    s2, info = rewrite(spec)
    w = spec["c09"]["rewrite"]
    if s2 is None:
        return {"status": "skip:rewrite-not-applicable"}
    opts = dict(oracles.TIGHT, tolerance_colebrook=1e-10, max_iter_colebrook=200)
    na, ea = netgen.try_run(spec, **opts)
    nb, eb = netgen.try_run(s2, **opts)
    if ea is not None or eb is not None:
        return {"status": "skip:" + type(ea or eb).__name__}
    if oracles.degenerate(na) or oracles.degenerate(nb):
        return {"status": "skip:degenerate"}
    normalise(nb, info)
    oracles.mask_zero_flow_friction(na, nb)
    skip = []
    thermal = spec["options"].get("mode", "hydraulics") != "hydraulics"
    if w == "reverse":
        skip = ["t_outlet_k"] if not thermal else []
    if w in ("split_series", "one_section"):
        skip = ["lambda", "reynolds", "v_from_m_per_s", "v_to_m_per_s", "v_mean_m_per_s", "normfactor_from", "normfactor_to",
                "dp_friction_loss_bar", "t_to_k", "t_outlet_k", "p_to_bar", "vdot_m3_per_s"] if w == "split_series" else ["dp_friction_loss_bar"]
        # (the pipe-level means - velocities, volume flow, Re, lambda - are those of the whole pipe on one side and of its first
        #  piece on the other: they coincide only for uniform properties, so the comparison is on pressures and mass flows)
    for t in info["skip_tables"]:
        if t in na:
            na[t] = na[t].iloc[0:0]
    if w == "drop_disabled":
        # the statement is about the rest of the network: the switched-off elements' own result rows are left out
        names = {"pipes": "pipe", "valves": "valve", "pumps": "pump", "compressors": "compressor", "flow_controls": "flow_control",
                 "press_controls": "press_control", "heat_exchangers": "heat_exchanger", "heat_consumers": "heat_consumer",
                 "sinks": "sink", "sources": "source", "mass_storages": "mass_storage", "ext_grids": "ext_grid",
                 "circ_pumps_p": "circ_pump_pressure", "circ_pumps_m": "circ_pump_mass"}
        for t, tbl in names.items():
            off = [e["index"] for e in spec[t] if not (e.get("opened", True) if t == "valves" and e.get("et") == "ju" else e.get("in_service", True))]
            if off and ("res_" + tbl) in na:
                na["res_" + tbl] = na["res_" + tbl].drop(index=[i for i in off if i in na["res_" + tbl].index])
    d = oracles.compare_results(na, nb, atol=1e-6, rtol=1e-5, flow_scale_tol=1e-3, subset=True, skip_cols=skip)
    if w == "split_series" and not d:
        # the far end of the original pipe corresponds to the far end of the last piece
        a, b = na.res_pipe.loc[info["split_pipe"]], nb.res_pipe.loc[info["last_piece"]]
        for c in ("p_to_bar", "t_to_k"):
            if abs(a[c] - b[c]) > 1e-6 + 1e-5 * abs(a[c]):
                d.append(("res_pipe", c, int(info["split_pipe"]), float(a[c]), float(b[c])))
    fails = []
    temps = {j["tfluid_k"] for j in spec["junctions"]} | {e["t_k"] for e in spec["ext_grids"]} | {
        e["t_flow_k"] for t in ("circ_pumps_p", "circ_pumps_m") for e in spec[t]}
    if d and w == "reverse" and len(temps) > 1:
        fails.append({"fingerprint": "C09:reverse:property-temperature-depends-on-declared-direction",
                      "clause": "reversal with non-uniform start / feed temperatures",
                      "detail": {"first": d[:3], "mode": spec["options"].get("mode"), "temperatures": sorted(temps)[:4]}})
    elif d:
        fails.append({"fingerprint": "C09:%s:%s:%s" % (w, d[0][0], d[0][1]), "clause": "rewrite '%s' leaves the results unchanged" % w,
                      "detail": {"first": d[:3], "mode": spec["options"].get("mode"), "fluid": spec["fluid"]}})
    return {"status": "ok", "failures": fails, "hash": netgen.structure_hash(spec) + w, "nontrivial": netgen.nontrivial(spec),
            "tags": [w, spec["options"].get("mode", "hydraulics")], "sample": dict(netgen.summarize(spec), rewrite=w)}


def search(ctx, escalate=False):
    n = ctx.budget(260, 6000)
    if escalate:
        n = max(n, 1500)
    agg = explore.explore(ctx.seed, n, gen, oracle)
    agg["rule"] = ("each generated net is compared with one rewrite of itself: random subset of pipes / valves / exchangers reversed; "
                   "an n-section pipe replaced by n pipes in series (interpolated heights); all pipes set to one section (liquids, "
                   "hydraulics); sinks/sources aggregated per junction; sources written as negative sinks; disabled elements "
                   "deleted; all fixed pressures shifted (liquids)")
    return agg


def replay(ctx, payload):
    explore.warm_up()
    return oracle(payload["case"]).get("failures") or None
