"""C05 — a returned result is converged and finite; a failed run leaves no results."""
import importlib
import itertools
from fractions import Fraction

import numpy as np

import explore
import netgen
import oracles
from common import LeanDriver

GENERATORS = []
ASSUMPTIONS = ["the Newton-driver model is validated against the real newton_raphson with scripted iteration functions "
               "(exhaustive for 1 variable up to 3 iterations over {NaN, below tol, 1, 2, 4} x residual {ok, large, NaN}, "
               "sampled beyond); the run-level model against real success/failure histories",
               "exceptions other than PipeflowNotConverged raised by result extraction are outside the stage model and are "
               "searched for separately"]

VALS = [float("nan"), 1e-7, 5e-6, 1.0, 2.0, 4.0]
RES = [0.0, 1.0, float("nan")]
VARS = ["mdot", "p", "mdotslack"]
PITS = ["branch", "node", "node"]
TOLS = [1e-5, 1e-5, 1e-5]
FRESH = 777.0
_NET = None


def frac(x):
    if x != x:
        return "nan"
    f = Fraction(x)
    return "%d/%d" % (f.numerator, f.denominator)


def run_real(obs, nvars, automatic, max_iter, alpha0=1):
    """drive the real newton_raphson; returns (converged, niter, alpha_end, trace)"""
    import pandapipes as pp
    pf = importlib.import_module("pandapipes.pipeflow")
    from pandapipes.pf.pipeflow_setup import init_options
    from pandapipes import idx_branch as ib, idx_node as inode
    global _NET
    if _NET is None:
        _NET = pp.create_empty_network(fluid="water")
        init_options(_NET)
    net = _NET
    net["_options"].update(max_iter_hyd=max_iter, nonlinear_method="automatic" if automatic else "constant",
                           tol_res=1e-3, alpha=alpha0)
    net["_active_pit"] = {"branch": np.full((1, ib.branch_cols), FRESH), "node": np.full((1, inode.node_cols), FRESH)}
    cols = [ib.MDOTINIT, inode.PINIT, inode.MDOTSLACKINIT]
    net.converged = False
    log = {"alpha_in": [], "restored": [], "conv": []}
    state = {"k": 0}

    def inspect():
        # which variables did finalize_iteration put back to their "old" marker after the previous call?
        k = state["k"] - 1
        r = []
        for v in range(nvars):
            cell = net["_active_pit"][PITS[v]][0, cols[v]]
            r.append(bool(cell == -(100.0 + 10 * k + v)))
        log["restored"].append(r)
        log["conv"].append(bool(net.converged))

    def funct(net_):
        if state["k"] > 0:
            inspect()
        k = state["k"]
        state["k"] += 1
        log["alpha_in"].append(float(net_["_options"]["alpha"]))
        resid, errs = obs[k]
        results = []
        for v in range(nvars):
            old = np.array([-(100.0 + 10 * k + v)])
            new = old + errs[v]
            results += [new, old]
            net_["_active_pit"][PITS[v]][0, cols[v]] = FRESH
        # the residual vector handed to the driver: its largest-magnitude entry is negative (the norm in force is max|r|)
        return results, np.array([-resid, 0.0]), [None] * nvars

    pf.newton_raphson(net, funct, "hydraulics", VARS[:nvars], TOLS[:nvars], PITS[:nvars], "max_iter_hyd")
    if state["k"] > 0:
        inspect()
    niter = net["_internal_results"]["iterations_hydraulics"]
    alpha_out = log["alpha_in"][1:] + [float(net["_options"]["alpha"])]
    trace = list(zip(log["alpha_in"], alpha_out, log["restored"], log["conv"]))
    return bool(net.converged), int(niter), float(net["_options"]["alpha"]), trace


def model_line(obs, nvars, automatic, max_iter, alpha0=1):
    return "newton %d %d %s :: %s :: %s :: %s" % (
        int(automatic), max_iter, frac(float(alpha0)), " ".join(frac(t) for t in TOLS[:nvars]), frac(1e-3),
        " ; ".join("%s %s" % (frac(r), " ".join(frac(e) for e in es)) for r, es in obs))


def parse_model(line):
    head, tr = line.split("::")
    c, n, a = head.split()
    trace = []
    for t in tr.split(";"):
        t = t.split()
        if not t:
            continue
        trace.append((float(Fraction(t[0])), float(Fraction(t[1])), [ch == "1" for ch in t[2]], t[3] == "1"))
    return c == "1", int(n), float(Fraction(a)), trace


def tie(ctx):
    rng = np.random.default_rng([ctx.seed, 5])
    cases = []
    # the two machine-checked witnesses of Props/C05.lean, replayed on the real code first
    cases.append(([(0.0, [1.0]), (0.0, [2.0]), (0.0, [1e-6])], 1, True, 10, 1))
    cases.append(([(0.0, [1.0, 1e-9]), (0.0, [1e-6, 2e-9])], 2, True, 10, 1))
    # exhaustive: one variable, up to 3 iterations
    single = [(r, [e]) for r in RES for e in VALS]
    for L in (1, 2, 3):
        for combo in itertools.product(single, repeat=L):
            for automatic in (True, False):
                cases.append((list(combo), 1, automatic, L, 1))
    # targeted: k consecutive increases (the damping factor falls to 0.1 / 0.01) followed by in-tolerance iterations
    for nv in (1, 2):
        for k in (1, 2, 3):
            for tail in (1, 2, 3):
                for automatic in (True, False):
                    obs = [(0.0, [float(2 ** i)] * nv) for i in range(k + 1)] + [(0.0, [1e-7] * nv)] * tail
                    cases.append((obs, nv, automatic, len(obs), 1))
    # sampled: 2-3 variables, longer, other budgets and start factors
    for _ in range(ctx.budget(1500, 30000)):
        nv = int(rng.integers(1, 4))
        L = int(rng.integers(1, 9))
        obs = [(float(rng.choice(RES, p=[0.7, 0.2, 0.1])), [float(rng.choice(VALS)) for _ in range(nv)]) for _ in range(L)]
        cases.append((obs, nv, bool(rng.random() < 0.7), int(rng.integers(1, L + 1)), float(rng.choice([1, 1, 0.5, 0.1, 0.01]))))
    lines = [model_line(*c) for c in cases]
    out = LeanDriver().run(lines)
    bad = []
    stats = {"cases": len(cases), "converged": 0, "with_nan": 0, "with_restore": 0, "damped": 0}
    for c, line, o in zip(cases, lines, out):
        obs, nv, automatic, max_iter, a0 = c
        try:
            rc, rn, ra, rt = run_real(obs, nv, automatic, max_iter, a0)
        except Exception as e:
            bad.append({"case": line, "what": "real newton_raphson raised %r" % (e,)})
            continue
        mc, mn, ma, mt = parse_model(o)
        stats["converged"] += rc
        stats["with_nan"] += any(e != e for _, es in obs for e in es)
        stats["with_restore"] += any(any(t[2]) for t in rt)
        stats["damped"] += any(abs(t[0] - 1) > 1e-9 for t in rt)
        same = (rc == mc and rn == mn and abs(ra - ma) < 1e-12 and len(rt) == len(mt) and all(
            abs(a[0] - b[0]) < 1e-12 and abs(a[1] - b[1]) < 1e-12 and a[2] == b[2] and a[3] == b[3] for a, b in zip(rt, mt)))
        if not same:
            bad.append({"case": line, "real": [rc, rn, ra, rt], "model": [mc, mn, ma, mt]})
            if len(bad) > 10:
                break
    return {"cases": len(cases), "disagreements": bad, "stats": stats}


# ---- search: real pipeflow histories ------------------------------------------------------------------
def gen(rng):
    hist = []
    for _ in range(int(rng.integers(2, 6))):
        r = rng.random()
        base = netgen.gen_hydraulic(rng, n_junc=int(rng.integers(2, 9)), fluid="water" if rng.random() < 0.7 else "lgas")
        kind = "ok"
        if r < 0.35:
            kind = str(rng.choice(["infeasible", "budget", "nosupply", "singular"]))
        step = {"kind": kind}
        if rng.random() < 0.6:
            # distinct tolerances per dimension: a stage that pairs a variable with the wrong option shows as a last
            # change above the tolerance in force
            step["tols"] = {k: float(rng.choice([1e-3, 1e-4, 1e-5, 1e-6, 1e-8])) for k in ("tol_p", "tol_m", "tol_T")}
        hist.append(step)
    s = netgen.gen_hydraulic(rng, n_junc=int(rng.integers(3, 10)))
    if rng.random() < 0.3:
        s = netgen.gen_heat_tree(rng)
    if rng.random() < 0.12:
        # the smallest nets (a single flowing pipe) with the implicit friction model: scalar code paths of the libraries used
        s = netgen.gen_hydraulic(rng, n_junc=2, features={"p_outage": 0.0, "p_pipe_valve": 0.0, "p_special": 0.0, "p_hex": 0.0})
        s["options"]["friction_model"] = "colebrook"
        s["options"]["max_iter_colebrook"] = 100
        hist = [{"kind": "ok"}, {"kind": str(rng.choice(["singular", "infeasible"]))}, {"kind": "ok"}]
    s["c05"] = hist
    return s


def all_results_nan(net):
    for t in oracles.res_tables(net):
        v = net[t].select_dtypes(include=[float]).values
        if v.size and not np.isnan(v).all():
            return False, t
    return True, None


def oracle(spec):
    import pandapipes as pp
    from pandapipes.pf.pipeflow_setup import PipeflowNotConverged
    net = netgen.build(spec)
    fails = []
    tags = []
    opts0 = dict(spec["options"])
    for step in spec["c05"]:
        kind = step["kind"]
        opts = dict(opts0)
        opts.update(step.get("tols", {}))
        undo = None
        if kind == "budget":
            opts.update(max_iter_hyd=1, max_iter_therm=1, max_iter_bidirect=1, iter=1)
        elif kind == "infeasible" and len(net.sink):
            old = net.sink.mdot_kg_per_s.values.copy()
            net.sink["mdot_kg_per_s"] = old * 1e4
            undo = lambda: net.sink.__setitem__("mdot_kg_per_s", old)
        elif kind == "nosupply" and len(net.ext_grid):
            old = net.ext_grid.in_service.values.copy()
            net.ext_grid["in_service"] = False
            undo = lambda: net.ext_grid.__setitem__("in_service", old)
        elif kind == "singular" and len(net.sink):
            # loads that overflow the linearisation (inf / NaN in the linear solve)
            old = net.sink.scaling.values.copy()
            net.sink["scaling"] = 1e150
            undo = lambda: net.sink.__setitem__("scaling", old)
        exc = None
        try:
            pp.pipeflow(net, **opts)
        except Exception as e:
            exc = e
        tags.append("returned" if exc is None else type(exc).__name__)
        if exc is None:
            if not net.converged:
                fails.append({"fingerprint": "C05:returned-not-converged", "clause": "returned => converged", "detail": {"kind": kind}})
            ir = net.get("_internal_results", {})
            o = net["_options"]
            tol = {"mdot": o["tol_m"], "p": o["tol_p"], "mdotslack": o["tol_m"], "Tout": o["tol_T"], "T": o["tol_T"],
                   "TOUT": o["tol_T"]}
            for var, t in tol.items():
                if var in ir and len(ir[var]) and not (ir[var][-1] <= t):
                    fails.append({"fingerprint": "C05:last-error-above-tol:%s" % var, "clause": "last iteration within tolerance",
                                  "detail": {"var": var, "error": float(ir[var][-1]), "tol": t}})
            for key in ir:
                if key.startswith("residual_norm") and not (ir[key] <= o["tol_res"]):
                    fails.append({"fingerprint": "C05:residual-above-tol", "clause": "residual within tol_res",
                                  "detail": {"key": key, "value": float(ir[key])}})
            # every supplied in-service element finite
            pj = net.res_junction.p_bar
            sup = set(pj.index[~np.isnan(pj.values)])
            for tbl, fc, tc in oracles.BRANCH_COMPONENTS:
                if not oracles.has(net, tbl) or tbl == "valve":
                    continue
                t, r = net[tbl], net["res_" + tbl]
                act = t["in_service"].values if "in_service" in t else np.ones(len(t), bool)
                both = np.array([a in sup and b in sup for a, b in zip(t[fc].values, t[tc].values)])
                cols = [c for c in ("mdot_from_kg_per_s", "p_from_bar", "p_to_bar") if c in r.columns]
                bad = act & both & ~np.isfinite(r[cols].values).all(axis=1)
                if tbl == "pipe":
                    pv = {p for (_v, _j, p, _s) in oracles.pipe_valve_info(net)}
                    bad &= ~np.isin(t.index.values, list(pv))
                if bad.any():
                    fails.append({"fingerprint": "C05:nonfinite-result:%s" % tbl, "clause": "supplied in-service element finite",
                                  "detail": {"table": tbl, "index": int(t.index[np.flatnonzero(bad)[0]])}})
        elif isinstance(exc, PipeflowNotConverged):
            if net.converged:
                fails.append({"fingerprint": "C05:raised-but-converged-flag", "clause": "failed run => not converged",
                              "detail": {"kind": kind, "exc": str(exc)[:80]}})
            ok, t = all_results_nan(net)
            if not ok:
                fails.append({"fingerprint": "C05:results-after-failed-run:%s" % t, "clause": "failed run => no result numbers",
                              "detail": {"kind": kind, "table": t}})
            ir = net.get("_internal_results", {})
            its = [v for k, v in ir.items() if k.startswith("iterations")]
            budget = max(opts.get("max_iter_hyd", 10), opts.get("max_iter_therm", 10), opts.get("max_iter_bidirect", 10))
            if its and max(its) > budget:
                fails.append({"fingerprint": "C05:budget-exceeded", "clause": "raises within the iteration budget",
                              "detail": {"iterations": its, "budget": budget}})
        else:
            # any other exception type: outside the stage model; the property only allows PipeflowNotConverged
            fails.append({"fingerprint": "C05:other-exception:%s:%s" % (type(exc).__name__, kind),
                          "clause": "failure mode must be PipeflowNotConverged",
                          "detail": {"kind": kind, "exc": repr(exc)[:200], "friction_model": opts.get("friction_model")}})
        if undo:
            undo()
    return {"status": "ok", "failures": fails, "hash": netgen.structure_hash(spec) + "".join(t[0] for t in tags),
            "nontrivial": any(t != "returned" for t in tags) and any(t == "returned" for t in tags), "tags": tags,
            "sample": {"net": netgen.summarize(spec), "history": [s["kind"] for s in spec["c05"]], "outcomes": tags}}


def scripted_clause_check():
    """the clause 'with automatic damping the accepted step was undamped' evaluated on the real driver for the
    two kernel-checked witnesses of Props/C05.lean"""
    fails = []
    w1 = [(0.0, [1.0]), (0.0, [2.0]), (0.0, [1e-6])]
    c, n, a, tr = run_real(w1, 1, True, 10, 1)
    if c and abs(tr[-1][0] - 1.0) > 1e-12:
        fails.append({"fingerprint": "C05:accepted-step-damped", "clause": "accepted step undamped (automatic)",
                      "detail": {"errors": [1.0, 2.0, 1e-6], "alpha_in_force_for_accepted_step": tr[-1][0], "niter": n},
                      "replay": {"case": {"scripted": "w1"}}})
    # "NaN never counts as converged": every placement of a NaN in the last observation (any variable's change, or the
    # residual) with everything else far inside the tolerances, both damping methods, 1-3 variables
    nan = float("nan")
    for automatic in (False, True):
        for nv in (1, 2, 3):
            for pos in range(nv + 1):
                errs = [1e-12] * nv
                resid = 0.0
                if pos < nv:
                    errs[pos] = nan
                else:
                    resid = nan
                for pre in ([], [(0.0, [1e-1] * nv)]):
                    obs = pre + [(resid, list(errs))] * 3
                    c, n, a, tr = run_real(obs, nv, automatic, len(pre) + 1, 1)
                    if c:
                        fails.append({"fingerprint": "C05:nan-counts-as-converged", "clause": "NaN never counts as converged",
                                      "detail": {"automatic": automatic, "variables": nv, "nan_at": "residual" if pos == nv else pos,
                                                 "iterations_before": len(pre), "converged": True},
                                      "replay": {"case": {"scripted": "nan"}}})
    # "with automatic damping the damping factor in force after a converged iteration is 1" (machine-checked for the model:
    # loop_converged_sound_partial): two rejected steps, then in-tolerance iterations - convergence may only be declared once
    # the factor is back at 1
    for nv in (1, 2):
        for tail in (1, 2, 3):
            obs = [(0.0, [1.0] * nv), (0.0, [2.0] * nv), (0.0, [4.0] * nv)] + [(0.0, [1e-7] * nv)] * tail
            c, n, a, tr = run_real(obs, nv, True, len(obs), 1)
            if c and abs(a - 1.0) > 1e-12:
                fails.append({"fingerprint": "C05:converged-while-damping-factor-below-one", "clause": "converged (automatic) => damping factor back at 1",
                              "detail": {"variables": nv, "in_tolerance_iterations": tail, "alpha_at_return": a, "niter": n},
                              "replay": {"case": {"scripted": "alpha"}}})
    # "residual within tol_res": the residual vector's largest-magnitude entry is negative and above the tolerance, every
    # change far inside its tolerance -> must not converge
    for automatic in (False, True):
        for nv in (1, 2, 3):
            c, n, a, tr = run_real([(1.0, [1e-12] * nv)] * 2, nv, automatic, 2, 1)
            if c:
                fails.append({"fingerprint": "C05:residual-above-tol-accepted", "clause": "converged => residual within tol_res",
                              "detail": {"automatic": automatic, "variables": nv, "residual_vector": [-1.0, 0.0], "tol_res": 1e-3},
                              "replay": {"case": {"scripted": "residual"}}})
    w2 = [(0.0, [1.0, 1e-9]), (0.0, [1e-6, 2e-9])]
    c, n, a, tr = run_real(w2, 2, True, 10, 1)
    if c and any(tr[-1][2]):
        fails.append({"fingerprint": "C05:accepted-step-partially-restored", "clause": "accepted step not rejected (automatic)",
                      "detail": {"errors": [[1.0, 1e-9], [1e-6, 2e-9]], "restored_in_accepted_iteration": tr[-1][2]},
                      "replay": {"case": {"scripted": "w2"}}})
    return fails


def search(ctx, escalate=False):
    n = ctx.budget(160, 4000)
    if escalate:
        n = max(n, 1000)
    agg = explore.explore(ctx.seed, n, gen, oracle)
    agg["failures"].extend(scripted_clause_check())
    agg["rule"] = ("histories of 2-5 pipeflow calls on one net object mixing successful runs with infeasible loads, iteration "
                   "budget 1, no supply, zero diameters; after each call: returned => converged flag, last errors/residual "
                   "within the tolerances in force, supplied in-service elements finite; PipeflowNotConverged => flag false, "
                   "all result tables NaN, iterations within budget; non-trivial = history with both outcomes")
    return agg


def replay(ctx, payload):
    if "scripted" in payload.get("case", {}):
        return scripted_clause_check() or None
    explore.warm_up()
    return oracle(payload["case"]).get("failures") or None
