"""C07 — numba = numpy; only_update_hydraulic_matrix / reuse_internal_data change nothing."""
import copy

import numpy as np

import corr_assemble
import explore
import kernel_selfcheck
import netgen
import oracles

GENERATORS = ["constants", "idx", "kernels", "kernel_runner"]
ASSUMPTIONS = ["kernel equality is proved over the reals; float-level agreement of the twins is measured by the bitwise "
               "self-check (numpy twin <=16 ulp behind exp/log, numba twin <=4 ulp)",
               "result-level tolerance 1e-9 relative / 1e-10 absolute (clean tree: <=3e-11)"]


def tie(ctx):
    kbad, kstats = kernel_selfcheck.run(ctx.seed, ctx.budget(2000, 40000))
    n = ctx.budget(200, 4000)
    abad, astats = corr_assemble.run(ctx.seed + 1, n)
    return {"cases": n + sum(v["inputs"] for v in kstats.values()), "disagreements": kbad + abad,
            "stats": {"kernels": kstats, "assembly": astats}}


def gen(rng):
    r = rng.random()
    if 0.54 <= r < 0.6:
        # gas with heat losses in a thermal mode, pipes declared against the flow: the gas post-processing twins
        s = netgen.gen_gas_heat_tree(rng)
        s["c07"] = {"variant": "engine", "scale": 1.0}
        return s
    if r < 0.6:
        s = netgen.gen_hydraulic(rng)
    elif r < 0.8:
        s = netgen.gen_heat_tree(rng)
    else:
        s = netgen.gen_heat_loop(rng)
    thermal = s["options"].get("mode") in ("sequential", "bidirectional")
    if 0.6 <= r < 0.8 and rng.random() < 0.5:
        # transient step sequence on a heating tree, sinks switched off and on (whole subtrees go stagnant): the two engines
        # must agree after every step
        T = int(rng.integers(3, 8))
        s["c07"] = {"variant": "transient_engine", "scale": 1.0,
                    "factors": [[float(rng.choice([0.0, 0.0, 1.0, 0.6, 1.4])) for _ in s["sinks"]] for _ in range(T)]}
        return s
    s["c07"] = {"variant": str(rng.choice(["engine", "engine", "update", "reuse_edit"] + (["update_thermal"] * 2 if thermal else []))),
                "scale": float(rng.choice([0.5, 1.3, 2.0]))}
    return s


def _edit_loads(spec, f):
    s2 = copy.deepcopy(spec)
    for t in ("sinks", "sources"):
        for e in s2[t]:
            e["mdot"] *= f
    return s2


def oracle(spec):
    import pandapipes as pp
    v = spec["c07"]["variant"]
    fails = []
    base_opts = dict(spec["options"], **oracles.TIGHT)
    if v == "transient_engine":
        nets = {}
        for nb_ in (True, False):
            net = netgen.build(spec)
            base = net.sink.mdot_kg_per_s.values.copy()
            hist = []
            try:
                for step, f in enumerate(spec["c07"]["factors"]):
                    net.sink["mdot_kg_per_s"] = base * np.asarray(f)
                    pp.pipeflow(net, **dict(base_opts, mode="sequential", transient=True, dt=60.0, simulation_time_step=step,
                                            use_numba=nb_))
                    hist.append({t: net[t].copy() for t in oracles.res_tables(net)})
            except Exception as e:
                return {"status": "skip:transient:" + type(e).__name__}
            nets[nb_] = hist
        for step, (ha, hb) in enumerate(zip(nets[True], nets[False])):
            class _N(dict):
                pass
            na, nb2 = _N(ha), _N(hb)
            d = oracles.compare_results(na, nb2, atol=1e-6, rtol=1e-5)
            if d:
                fails.append({"fingerprint": "C07:transient-engine:%s:%s" % (d[0][0], d[0][1]), "clause": "use_numba True vs False, transient steps",
                              "detail": {"step": step, "first": d[:3]}})
                break
        return {"status": "ok", "failures": fails, "hash": netgen.structure_hash(spec) + "T%d" % len(spec["c07"]["factors"]),
                "nontrivial": True, "tags": [v], "sample": dict(netgen.summarize(spec), variant=v, steps=len(spec["c07"]["factors"]))}
    if v == "engine":
        na, ea = netgen.try_run(spec, **dict(base_opts, use_numba=True))
        nb, eb = netgen.try_run(spec, **dict(base_opts, use_numba=False))
        if (ea is None) != (eb is None):
            # one engine converges, the other does not: only a finding if the converged one is well inside
            return {"status": "skip:one-engine-failed"}
        if ea is not None:
            return {"status": "skip:" + type(ea).__name__}
        if oracles.degenerate(na) or oracles.degenerate(nb):
            return {"status": "skip:degenerate"}
        oracles.mask_zero_flow_friction(na, nb)
        d = oracles.compare_results(na, nb, atol=1e-6, rtol=1e-5)
        if d:
            fails.append({"fingerprint": "C07:engine:%s:%s" % (d[0][0], d[0][1]), "clause": "use_numba True vs False",
                          "detail": {"first": d[:3], "mode": base_opts.get("mode")}})
    elif v == "update_thermal":
        na, ea = netgen.try_run(spec, **dict(base_opts))
        nb, eb = netgen.try_run(spec, **dict(base_opts, only_update_hydraulic_matrix=True))
        if ea is not None or eb is not None:
            if (ea is None) != (eb is None):
                fails.append({"fingerprint": "C07:update:raises:thermal-mode:%s" % type(ea or eb).__name__,
                              "clause": "only_update_hydraulic_matrix in a thermal mode",
                              "detail": {"plain": repr(ea), "update": repr(eb), "mode": base_opts.get("mode")}})
                return {"status": "ok", "failures": fails, "hash": netgen.structure_hash(spec)}
            return {"status": "skip:" + type(ea).__name__}
        d = oracles.compare_results(na, nb, atol=1e-6, rtol=1e-5)
        if d:
            fails.append({"fingerprint": "C07:update_thermal:%s:%s" % (d[0][0], d[0][1]),
                          "clause": "only_update_hydraulic_matrix in a thermal mode", "detail": {"first": d[:3]}})
    elif v == "update":
        if base_opts.get("mode", "hydraulics") != "hydraulics":
            base_opts["mode"] = "hydraulics"
        na, ea = netgen.try_run(spec, **dict(base_opts))
        nb, eb = netgen.try_run(spec, **dict(base_opts, only_update_hydraulic_matrix=True))
        if ea is not None or eb is not None:
            if (ea is None) != (eb is None):
                pc = any(e["control_active"] and e["in_service"] for e in spec["press_controls"])
                fails.append({"fingerprint": "C07:update:raises:%s" % ("active-press-control" if pc else "other"),
                              "clause": "only_update_hydraulic_matrix",
                              "detail": {"plain": repr(ea), "update": repr(eb)}})
                return {"status": "ok", "failures": fails, "hash": netgen.structure_hash(spec)}
            return {"status": "skip:" + type(ea).__name__}
        if oracles.degenerate(na) or oracles.degenerate(nb):
            return {"status": "skip:degenerate"}
        oracles.mask_zero_flow_friction(na, nb)
        d = oracles.compare_results(na, nb, atol=1e-6, rtol=1e-5)
        if d:
            fails.append({"fingerprint": "C07:update:%s:%s" % (d[0][0], d[0][1]), "clause": "only_update_hydraulic_matrix",
                          "detail": {"first": d[:3]}})
    else:
        # reuse internal data across calls with edited loads
        base_opts["mode"] = "hydraulics"
        s2 = _edit_loads(spec, spec["c07"]["scale"])
        net = netgen.build(spec)
        try:
            pp.pipeflow(net, **dict(base_opts, only_update_hydraulic_matrix=True, reuse_internal_data=True))
            for t, tab in (("sinks", "sink"), ("sources", "source")):
                if len(s2[t]):
                    net[tab]["mdot_kg_per_s"] = [e["mdot"] for e in s2[t]]
            pp.pipeflow(net, **dict(base_opts, only_update_hydraulic_matrix=True, reuse_internal_data=True))
            e1 = None
        except Exception as e:
            e1 = e
        nb, eb = netgen.try_run(s2, **base_opts)
        if e1 is not None or eb is not None:
            if (e1 is None) != (eb is None):
                from pandapipes.pf.pipeflow_setup import PipeflowNotConverged
                if not isinstance(e1 or eb, PipeflowNotConverged):
                    fails.append({"fingerprint": "C07:reuse:raises", "clause": "reuse_internal_data with edited loads",
                                  "detail": {"reuse": repr(e1), "fresh": repr(eb)}})
                    return {"status": "ok", "failures": fails, "hash": netgen.structure_hash(spec)}
            return {"status": "skip:nonconv"}
        if oracles.degenerate(net) or oracles.degenerate(nb):
            return {"status": "skip:degenerate"}
        oracles.mask_zero_flow_friction(net, nb)
        d = oracles.compare_results(net, nb, atol=1e-6, rtol=1e-5)
        if d:
            fails.append({"fingerprint": "C07:reuse:%s:%s" % (d[0][0], d[0][1]), "clause": "reuse_internal_data with edited loads",
                          "detail": {"first": d[:3]}})
        # ... then a structural edit (one pipe taken out of service) and a call that updates the matrix but does NOT ask for
        # the stored data: nothing of the earlier structure may be left over
        live = [i for i, p in enumerate(s2["pipes"]) if p["in_service"]]
        if live and not fails:
            k = live[len(live) // 2]
            s3 = copy.deepcopy(s2)
            s3["pipes"][k]["in_service"] = False
            e3 = None
            try:
                net.pipe.loc[net.pipe.index[k], "in_service"] = False
                pp.pipeflow(net, **dict(base_opts, only_update_hydraulic_matrix=True))
            except Exception as e:
                e3 = e
            nc, ec = netgen.try_run(s3, **base_opts)
            from pandapipes.pf.pipeflow_setup import PipeflowNotConverged
            if e3 is not None or ec is not None:
                if (e3 is None) != (ec is None) and not isinstance(e3 or ec, PipeflowNotConverged):
                    fails.append({"fingerprint": "C07:reuse-then-structural-edit:raises:%s" % type(e3 or ec).__name__,
                                  "clause": "a call without reuse_internal_data after a reusing call and a structural edit",
                                  "detail": {"update_run": repr(e3), "fresh": repr(ec), "pipe_position": k}})
            elif not (oracles.degenerate(net) or oracles.degenerate(nc)):
                oracles.mask_zero_flow_friction(net, nc)
                d = oracles.compare_results(net, nc, atol=1e-6, rtol=1e-5)
                if d:
                    fails.append({"fingerprint": "C07:reuse-then-structural-edit:%s:%s" % (d[0][0], d[0][1]),
                                  "clause": "a call without reuse_internal_data after a reusing call and a structural edit",
                                  "detail": {"first": d[:3], "pipe_position": k}})
    return {"status": "ok", "failures": fails, "hash": netgen.structure_hash(spec) + v, "nontrivial": netgen.nontrivial(spec),
            "tags": [v, base_opts.get("mode", "hydraulics")], "sample": dict(netgen.summarize(spec), variant=v)}


def search(ctx, escalate=False):
    n = ctx.budget(200, 5000)
    if escalate:
        n = max(n, 1200)
    agg = explore.explore(ctx.seed, n, gen, oracle)
    agg["rule"] = ("generated nets (hydraulic, heat tree, heating loop) run as pairs: use_numba True/False; plain vs "
                   "only_update_hydraulic_matrix; reuse_internal_data across two calls with edited loads vs fresh run; "
                   "distinct = structural hash x variant")
    return agg


def replay(ctx, payload):
    explore.warm_up()
    return oracle(payload["case"]).get("failures") or None
