"""C19 — fluid and standard-type libraries return what their data and documentation say."""
from fractions import Fraction

import numpy as np
import pandas as pd

from common import LeanDriver

GENERATORS = ["fluid_data"]
ASSUMPTIONS = ["the library data files are read as exact decimals; the real classes evaluate in double precision and are compared "
               "with the exact model at 1e-12 relative",
               "pump regression parameters are produced by numpy.polyfit at load time (library code); the curve evaluation is "
               "modelled and compared for the loaded parameters"]
PROPS = ["density", "viscosity", "heat_capacity"]


def frac(x):
    f = Fraction(float(x))
    return "%d/%d" % (f.numerator, f.denominator)


def tie(ctx):
    from pandapipes.properties.fluids import call_lib, _LIQUIDS, _GASES
    rng = np.random.default_rng([ctx.seed, 19])
    lines, expect = [], []
    bad = []
    for name in _LIQUIDS + _GASES:
        fl = call_lib(name)
        for prop in PROPS:
            pg = fl.all_properties[prop].prop_getter
            xs = list(pg.x) + list(rng.uniform(pg.x.min() - 60, pg.x.max() + 60, ctx.budget(15, 200)))
            for x in xs:
                lines.append("fluid %s %s %s" % (name, prop, frac(x)))
                expect.append(float(fl.get_property(prop, float(x))))
        for x in rng.uniform(0.5, 90, 5):
            lines.append("fluid %s compressibility %s" % (name, frac(x)))
            expect.append(float(fl.get_property("compressibility", float(x))))
        lines.append("fluid %s der_compressibility 0/1" % name)
        expect.append(float(np.ravel(fl.get_der_compressibility())[0]))
        lines.append("fluid %s molar_mass 0/1" % name)
        expect.append(float(np.ravel(fl.get_molar_mass())[0]))
    # pump types
    import pandapipes as pp
    net = pp.create_empty_network(fluid="water")
    for nm, st in net.std_types["pump"].items():
        reg = " ".join(frac(c) for c in st.reg_par)
        for v in list(rng.uniform(-0.01, 0.08, ctx.budget(20, 300))) + [0.0]:
            lines.append("pump :: %s :: %s" % (reg, frac(v)))
            expect.append(float(st.get_pressure(float(v))))
    out = LeanDriver().run(lines)
    for line, o, e in zip(lines, out, expect):
        try:
            m = float(Fraction(o))
        except Exception:
            bad.append({"case": line[:120], "model": o})
            continue
        if abs(m - e) > 1e-11 * max(1.0, abs(e)):
            bad.append({"case": line[:160], "model": m, "real": e})
            if len(bad) > 8:
                break
    return {"cases": len(lines), "disagreements": bad, "stats": {"queries": len(lines)}}


def search(ctx, escalate=False):
    """property-level oracle on the real classes"""
    from pandapipes.properties.fluids import (call_lib, _LIQUIDS, _GASES, FluidPropertyConstant, FluidPropertyLinear,
                                              FluidPropertyInterExtra)
    from pandapipes.properties import properties_toolbox as ptb
    import pandapipes as pp
    rng = np.random.default_rng([ctx.seed, 191])
    fails = []
    n = 0
    seen = set()
    samples = []

    def fail(fp, clause, **detail):
        if fp not in seen:
            seen.add(fp)
            fails.append({"fingerprint": fp, "clause": clause, "detail": detail, "replay": {"case": {"fingerprint": fp}}})

    reps = ctx.budget(20, 400)
    for name in _LIQUIDS + _GASES:
        fl = call_lib(name)
        for prop in PROPS:
            p = fl.all_properties[prop]
            pg = p.prop_getter
            # knots, shape
            y = p.get_at_value(pg.x)
            n += 1
            if not np.allclose(y, pg.y, rtol=1e-13, atol=0):
                fail("C19:knots:%s:%s" % (name, prop), "tabulated values reproduced")
            for q in (float(pg.x[0]), np.array([pg.x[0], pg.x[-1] + 10.0]), pd.Series([pg.x[0] - 5.0, pg.x[1]])):
                r = np.asarray(p.get_at_value(q))
                if r.shape != np.shape(q):
                    fail("C19:shape:%s" % type(q).__name__, "result shaped like the query", fluid=name, prop=prop,
                         shape=list(r.shape), query_shape=list(np.shape(q)))
            for _ in range(reps):
                a, b, c = (float(v) for v in rng.uniform(pg.x.min() - 40, pg.x.max() + 40, 3))
                n += 1
                iab, iba = float(p.get_at_integral_value(a, b)), float(p.get_at_integral_value(b, a))
                if abs(iab + iba) > 1e-9 * (1 + abs(iab)):
                    fail("C19:integral-antisymmetric:inter", "integral antisymmetric in its limits", fluid=name, prop=prop,
                         a=a, b=b, i_ab=iab, i_ba=iba)
                # linear between neighbouring knots / beyond the ends
                k = int(rng.integers(0, len(pg.x) - 1))
                x0, x1 = pg.x[k], pg.x[k + 1]
                t = float(rng.uniform(0, 1))
                mid = float(p.get_at_value(x0 + t * (x1 - x0)))
                if abs(mid - (pg.y[k] + t * (pg.y[k + 1] - pg.y[k]))) > 1e-12 * (1 + abs(mid)):
                    fail("C19:linear-between:%s" % prop, "linear between tabulated points", fluid=name, k=k)
                beyond = float(p.get_at_value(pg.x[-1] + 7.0))
                exp = pg.y[-1] + 7.0 * (pg.y[-1] - pg.y[-2]) / (pg.x[-1] - pg.x[-2])
                if abs(beyond - exp) > 1e-11 * (1 + abs(exp)):
                    fail("C19:extrapolation:%s" % prop, "linear extrapolation beyond the table", fluid=name)
        slope = fl.all_properties["compressibility"].slope
        der = float(np.ravel(fl.get_der_compressibility())[0])
        n += 1
        if abs(slope - der) > 1e-15:
            fail("C19:compressibility-slope-vs-derivative:%s" % name, "compressibility slope = stored derivative", slope=slope, der=der)
    # user-defined interpolated property whose rows are given in any order (descending, shuffled): knots, linear in between,
    # linear beyond the table, integral = trapezoid of the sorted table
    from pandapipes.properties.fluids import FluidPropertyInterExtra
    for _ in range(reps):
        k = int(rng.integers(3, 8))
        xs = np.sort(rng.uniform(250, 400, k))
        xs = xs + np.arange(k) * 1e-3
        ys = rng.uniform(0.5, 5.0, k)
        order = rng.permutation(k) if rng.random() < 0.6 else np.arange(k)[::-1]
        n += 1
        try:
            prop = FluidPropertyInterExtra(xs[order].copy(), ys[order].copy())
            at = np.asarray(prop.get_at_value(xs), float)
            q = rng.uniform(xs[0] - 20, xs[-1] + 20, 6)
            got = np.asarray(prop.get_at_value(q), float)
        except Exception as e:
            fail("C19:user-table-raises", "user-defined interpolated property", exc=repr(e)[:120], order=order.tolist())
            continue
        if not np.allclose(at, ys, rtol=1e-12, atol=1e-12):
            fail("C19:user-table-knots", "tabulated values reproduced at the tabulated points", order=order.tolist(),
                 got=at[:3].tolist(), expected=ys[:3].tolist())
        ref = np.interp(q, xs, ys)
        lo, hi = q < xs[0], q > xs[-1]
        ref[lo] = ys[0] + (q[lo] - xs[0]) * (ys[1] - ys[0]) / (xs[1] - xs[0])
        ref[hi] = ys[-1] + (q[hi] - xs[-1]) * (ys[-1] - ys[-2]) / (xs[-1] - xs[-2])
        if not np.allclose(got, ref, rtol=1e-10, atol=1e-10):
            fail("C19:user-table-interpolation", "linear between / beyond the tabulated points", order=order.tolist())
    # constant / linear property classes, all argument kinds
    for _ in range(reps):
        v, s, o = (float(x) for x in rng.uniform(-5, 5, 3))
        a, b, c = (float(x) for x in rng.uniform(250, 400, 3))
        for cls_name, prop in (("const", FluidPropertyConstant(v)), ("linear", FluidPropertyLinear(s, o))):
            for kind, mk in (("float", lambda z: z), ("array", lambda z: np.array([z, z + 1.0])),
                             ("series", lambda z: pd.Series([z, z + 1.0]))):
                n += 1
                try:
                    iab = np.asarray(prop.get_at_integral_value(mk(a), mk(b)), float)
                    iba = np.asarray(prop.get_at_integral_value(mk(b), mk(a)), float)
                    ibc = np.asarray(prop.get_at_integral_value(mk(b), mk(c)), float)
                    iac = np.asarray(prop.get_at_integral_value(mk(a), mk(c)), float)
                except Exception as e:
                    fail("C19:integral-raises:%s:%s" % (cls_name, kind), "integral accepts scalars, arrays and Series",
                         exc=repr(e)[:120])
                    continue
                # consistent with the property values: the closed form of the integral of v resp. s*T + o between b and a
                ua, lb = np.asarray(mk(a), float), np.asarray(mk(b), float)
                exact = v * (ua - lb) if cls_name == "const" else s / 2 * (ua ** 2 - lb ** 2) + o * (ua - lb)
                if not np.allclose(iab, exact, rtol=1e-10, atol=1e-7):
                    fail("C19:integral-value:%s:%s" % (cls_name, kind), "integral consistent with the property values", kind=kind,
                         got=np.ravel(iab)[:2].tolist(), expected=np.ravel(exact)[:2].tolist())
                if not np.allclose(iab, -iba, rtol=1e-10, atol=1e-9):
                    fail("C19:integral-antisymmetric:%s" % cls_name, "integral antisymmetric", kind=kind)
                if not np.allclose(iab + ibc, iac, rtol=1e-10, atol=1e-7):
                    fail("C19:integral-additive:%s" % cls_name, "integral additive", kind=kind)
            # mixed argument kinds (upper limit of one kind, lower of another)
            kinds = {"float": lambda z: z, "array": lambda z: np.array([z, z + 1.0]), "series": lambda z: pd.Series([z, z + 1.0])}
            for ku, kl in (("array", "series"), ("series", "array"), ("series", "float"), ("float", "series"), ("array", "float")):
                n += 1
                try:
                    got = np.asarray(prop.get_at_integral_value(kinds[ku](a), kinds[kl](b)), float)
                except Exception as e:
                    fail("C19:integral-raises:%s:%s-%s" % (cls_name, ku, kl), "integral accepts scalars, arrays and Series",
                         exc=repr(e)[:120])
                    continue
                ua, lb = np.asarray(kinds[ku](a), float), np.asarray(kinds[kl](b), float)
                exact = v * (ua - lb) if cls_name == "const" else s / 2 * (ua ** 2 - lb ** 2) + o * (ua - lb)
                if got.shape != np.broadcast(ua, lb).shape or not np.allclose(got, exact, rtol=1e-10, atol=1e-7):
                    fail("C19:integral-value:%s:%s-%s" % (cls_name, ku, kl), "integral consistent with the property values",
                         got=np.ravel(got)[:2].tolist(), expected=np.ravel(exact)[:2].tolist())
    # mixtures
    for _ in range(reps):
        k = int(rng.integers(2, 6))
        x = rng.uniform(0.05, 1, k)
        x = x / x.sum()
        m = rng.uniform(2, 50, k)
        w = ptb.calculate_mass_fraction_from_molar_fraction(x, m)
        n += 1
        if abs(np.sum(w) - 1) > 1e-12:
            fail("C19:mass-fractions-sum", "fractions sum to one", total=float(np.sum(w)))
        mm = ptb.calculate_mixture_molar_mass(m, x)
        if not (m.min() - 1e-12 <= mm <= m.max() + 1e-12):
            fail("C19:mixture-molar-mass-bounds", "mixture within component bounds", value=float(mm))
        # molar -> mass -> molar round trip
        xb = (w / m) / np.sum(w / m)
        if not np.allclose(xb, x, rtol=1e-12):
            fail("C19:mass-molar-inverse", "molar and mass forms are inverse")
        cp = rng.uniform(900, 4300, k)
        cpm = ptb.calculate_mixture_heat_capacity(cp, w)
        rho = rng.uniform(0.08, 2, k)
        rm = ptb.calculate_mixture_density(rho, w)
        if not (cp.min() - 1e-9 <= cpm <= cp.max() + 1e-9) or not (rho.min() - 1e-12 <= rm <= rho.max() + 1e-12):
            fail("C19:mixture-bounds", "mixture within component bounds", cp=float(cpm), rho=float(rm))
    # pump types
    net = pp.create_empty_network(fluid="water")
    for nm, st in net.std_types["pump"].items():
        for _ in range(reps):
            # random flows of either sign plus the boundary of the reverse-flow rule (exactly zero, signed zero, +-tiny)
            v = np.concatenate((rng.uniform(-0.02, 0.12, 6), [0.0, -0.0, 1e-13, -1e-13]))
            n += 1
            try:
                arr = np.asarray(st.get_pressure(v), float)
            except Exception as e:
                fail("C19:pump-array-raises", "pump curve for array queries", pump=nm, exc=repr(e)[:120])
                continue
            sc = np.array([float(st.get_pressure(float(z))) for z in v])
            if (arr < 0).any() or (sc < 0).any():
                fail("C19:pump-negative-lift", "pump lift non-negative", pump=nm, lift=float(min(arr.min(), sc.min())))
            if (arr[v < 0] != 0).any():
                fail("C19:pump-reverse-lift", "zero lift for reverse flow", pump=nm)
            pw = np.arange(len(st.reg_par) - 1, -1, -1)
            poly = np.array([max(0.0, float(np.sum(np.asarray(st.reg_par, float) * (z * 3600) ** pw))) if z >= 0 else 0.0 for z in v])
            if not np.allclose(sc, poly, rtol=1e-10, atol=1e-12) or not np.allclose(arr, poly, rtol=1e-10, atol=1e-12):
                k = int(np.flatnonzero(~np.isclose(sc, poly, rtol=1e-10, atol=1e-12) | ~np.isclose(arr, poly, rtol=1e-10, atol=1e-12))[0])
                fail("C19:pump-vs-polynomial", "lift follows the regression polynomial for non-reverse flow", pump=nm,
                     vdot=float(v[k]), scalar=float(sc[k]), array=float(arr[k]), polynomial=float(poly[k]))
            if not np.allclose(arr, sc, rtol=1e-12, atol=1e-12):
                fail("C19:pump-scalar-vs-array", "same lift for scalar and array queries", pump=nm,
                     array=arr.tolist()[:3], scalar=sc.tolist()[:3])
    # ... also through the bulk function with one std type per pipe
    net = pp.create_empty_network(fluid="water")
    j = pp.create_junctions(net, 2, 5.0, 300.0)
    names = list(net.std_types["pipe"].keys())[:ctx.budget(6, 60)]
    if len(names) >= 2:
        idxs = pp.create_pipes(net, [j[0]] * len(names), [j[1]] * len(names), std_type=names, length_km=0.1)
        n += 1
        for idx, nm in zip(idxs, names):
            par = net.std_types["pipe"][nm]
            for c in ("inner_diameter_mm", "outer_diameter_mm"):
                if c in par and not (isinstance(par[c], float) and np.isnan(par[c])) and abs(net.pipe.at[idx, c] - par[c]) > 0:
                    fail("C19:std-type-parameter:create_pipes:%s" % c, "standard-type parameters reach created pipes unchanged",
                         std_type=nm, column=c, created=float(net.pipe.at[idx, c]), std_type_value=float(par[c]))
    # standard-type parameters reach created pipes unchanged
    net = pp.create_empty_network(fluid="water")
    j = pp.create_junctions(net, 2, 5.0, 300.0)
    for nm, par in list(net.std_types["pipe"].items())[:ctx.budget(10, 200)]:
        idx = pp.create_pipe(net, j[0], j[1], std_type=nm, length_km=0.1)
        n += 1
        if abs(net.pipe.at[idx, "inner_diameter_mm"] - par["inner_diameter_mm"]) > 0 or (
                "k_mm" in par and not np.isnan(par.get("k_mm", np.nan)) and net.pipe.at[idx, "k_mm"] != par["k_mm"]):
            fail("C19:stdtype-to-pipe", "standard-type parameters reach created pipes", std_type=nm)
    samples.append({"fluids": _LIQUIDS + _GASES, "property_classes": ["inter_extra", "constant", "linear"],
                    "pump_types": list(net.std_types["pump"].keys())})
    return {"evaluations": n, "distinct_nontrivial": n, "failures": fails, "samples": samples,
            "rule": "every library fluid x interpolated property: knots, shapes (float / array / Series), linearity between and beyond "
                    "knots, integral antisymmetry; constant / linear classes: antisymmetry and additivity for all argument kinds; random "
                    "mixtures: fractions, inverse, bounds; all pump types: non-negative, zero for reverse flow, scalar = array; pipe "
                    "std types reach net.pipe"}


def replay(ctx, payload):
    r = search(ctx)
    fp = payload.get("fingerprint")
    return [f for f in r["failures"] if f["fingerprint"] == fp] or None
