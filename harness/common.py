"""Shared plumbing for the verification harness: paths, Lean driver handle, hex floats, PRNG."""
import json
import os
import struct
import subprocess
import sys
import time

VERIF = os.path.dirname(os.path.dirname(os.path.abspath(__file__)))
REPO = os.environ.get("PPV_REPO", "/repo")
LEAN_DIR = os.path.join(VERIF, "lean")
GEN_DIR = os.path.join(LEAN_DIR, "PPV", "Gen")
DRIVER = os.path.join(LEAN_DIR, ".lake", "build", "bin", "driver")

if os.path.join(REPO, "src") not in sys.path:
    sys.path.insert(0, os.path.join(REPO, "src"))


def f2hex(x):
    return struct.pack(">d", float(x)).hex()


def hex2f(s):
    return struct.unpack(">d", bytes.fromhex(s))[0]


def ulp_diff(a, b):
    """distance in units in the last place between two doubles (NaN==NaN -> 0)"""
    if a != a and b != b:
        return 0
    if a != a or b != b:
        return 1 << 62
    ia = struct.unpack(">q", struct.pack(">d", a))[0]
    ib = struct.unpack(">q", struct.pack(">d", b))[0]
    if ia < 0:
        ia = -(ia & 0x7FFFFFFFFFFFFFFF)
    if ib < 0:
        ib = -(ib & 0x7FFFFFFFFFFFFFFF)
    return abs(ia - ib)


def gen_meta():
    with open(os.path.join(GEN_DIR, "meta.json")) as f:
        return json.load(f)


class LeanDriver:
    """Batch interface to the compiled model driver: feed lines, get lines."""

    def __init__(self):
        if not os.path.exists(DRIVER):
            raise RuntimeError("model driver not built: %s" % DRIVER)

    def run(self, lines, timeout=600):
        data = "\n".join(lines) + "\n"
        p = subprocess.run([DRIVER], input=data, capture_output=True, text=True, timeout=timeout)
        if p.returncode != 0:
            raise RuntimeError("driver failed rc=%s: %s" % (p.returncode, p.stderr[-2000:]))
        out = p.stdout.split("\n")
        if out and out[-1] == "":
            out.pop()
        if len(out) != len(lines):
            raise RuntimeError("driver returned %d lines for %d requests" % (len(out), len(lines)))
        return out


class Timer:
    def __init__(self):
        self.t0 = time.time()

    def s(self):
        return round(time.time() - self.t0, 3)


def seed_from_env(default=0):
    try:
        return int(os.environ.get("VERIF_SEED", default))
    except ValueError:
        return default
