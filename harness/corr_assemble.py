"""
Correspondence between `Model/Assemble.lean` and the real `build_system_matrix` (hydraulic and thermal):
random pits with small-integer entries (so float sums are exact), dense matrix and right-hand side
compared for equality.  Covers random topologies with parallel branches and self-consistent node/branch
types (P / PC / plain nodes; PC branches paired with PC nodes), both `use_numba` settings and the
`only_update_hydraulic_matrix` path (first call and update call).
"""
import numpy as np

from common import LeanDriver


def _net_stub(use_numba, update=False):
    return {"_options": {"only_update_hydraulic_matrix": update, "use_numba": use_numba}, "_internal_data": {}}


def random_hyd_pit(rng, nmax=9, bmax=14):
    from pandapipes import idx_branch as ib, idx_node as inode
    n = int(rng.integers(1, nmax + 1))
    b = int(rng.integers(0, bmax + 1))
    npit = np.zeros((n, inode.node_cols))
    bp = np.zeros((b, ib.branch_cols))
    types = rng.choice([inode.L, inode.L, inode.L, inode.P], n)
    if not (types == inode.P).any():
        types[int(rng.integers(0, n))] = inode.P
    npit[:, inode.NODE_TYPE] = types
    bp[:, ib.FROM_NODE] = rng.integers(0, n, b)
    bp[:, ib.TO_NODE] = rng.integers(0, n, b)
    # pressure controllers: k PC branches and k distinct PC nodes (non-slack)
    cand = np.flatnonzero(types == inode.L)
    k = int(rng.integers(0, min(len(cand), b, 2) + 1)) if b else 0
    if k:
        pcn = rng.choice(cand, k, replace=False)
        npit[pcn, inode.NODE_TYPE] = inode.PC
        pcb = rng.choice(b, k, replace=False)
        bp[pcb, ib.BRANCH_TYPE] = ib.PC
    for col in (ib.JAC_DERIV_DM, ib.JAC_DERIV_DP, ib.JAC_DERIV_DP1, ib.JAC_DERIV_DM_NODE, ib.LOAD_VEC_BRANCHES,
                ib.LOAD_VEC_NODES_FROM, ib.LOAD_VEC_NODES_TO):
        bp[:, col] = rng.integers(-9, 10, b)
    for col in (inode.LOAD, inode.MDOTSLACKINIT, inode.JAC_DERIV_MSL):
        npit[:, col] = rng.integers(-9, 10, n)
    return npit, bp


def random_heat_pit(rng, nmax=9, bmax=14):
    from pandapipes import idx_branch as ib, idx_node as inode
    n = int(rng.integers(1, nmax + 1))
    b = int(rng.integers(0, bmax + 1))
    npit = np.zeros((n, inode.node_cols))
    bp = np.zeros((b, ib.branch_cols))
    bp[:, ib.FROM_NODE] = rng.integers(0, n, b)
    bp[:, ib.TO_NODE] = rng.integers(0, n, b)
    bp[:, ib.FROM_NODE_T_SWITCHED] = rng.integers(0, 2, b)
    k = int(rng.integers(0, min(n, 3) + 1))
    tsl = rng.choice(n, k, replace=False)
    inf = rng.choice(n, k, replace=False)          # same count, possibly different nodes
    npit[tsl, inode.NODE_TYPE_T] = inode.T
    npit[inf, inode.INFEED] = 1
    for col in (ib.JAC_DERIV_DT, ib.JAC_DERIV_DTOUT, ib.JAC_DERIV_DT_NODE, ib.JAC_DERIV_DTOUT_NODE,
                ib.LOAD_VEC_BRANCHES_T, ib.LOAD_VEC_NODES_TO_T):
        bp[:, col] = rng.integers(-9, 10, b)
    for col in (inode.LOAD_T, inode.JAC_DERIV_DT_N):
        npit[:, col] = rng.integers(-9, 10, n)
    return npit, bp


def _ints(a):
    return " ".join(str(int(v)) for v in a)


def hyd_line(npit, bp):
    from pandapipes import idx_branch as ib, idx_node as inode
    f = [bp[:, ib.FROM_NODE], bp[:, ib.TO_NODE], npit[:, inode.NODE_TYPE], bp[:, ib.BRANCH_TYPE],
         bp[:, ib.JAC_DERIV_DM], bp[:, ib.JAC_DERIV_DP], bp[:, ib.JAC_DERIV_DP1], bp[:, ib.JAC_DERIV_DM_NODE],
         bp[:, ib.LOAD_VEC_BRANCHES], bp[:, ib.LOAD_VEC_NODES_FROM], bp[:, ib.LOAD_VEC_NODES_TO],
         npit[:, inode.LOAD], npit[:, inode.MDOTSLACKINIT], npit[:, inode.JAC_DERIV_MSL]]
    return "asm hyd %d %d :: %s" % (len(npit), len(bp), " | ".join(_ints(x) for x in f))


def heat_line(npit, bp):
    from pandapipes import idx_branch as ib, idx_node as inode
    from pandapipes.pf.internals_toolbox import get_from_nodes_corrected, get_to_nodes_corrected
    fn = get_from_nodes_corrected(bp) if len(bp) else np.array([])
    tn = get_to_nodes_corrected(bp) if len(bp) else np.array([])
    f = [fn, tn, npit[:, inode.NODE_TYPE_T], npit[:, inode.INFEED],
         bp[:, ib.JAC_DERIV_DT], bp[:, ib.JAC_DERIV_DTOUT], bp[:, ib.JAC_DERIV_DT_NODE], bp[:, ib.JAC_DERIV_DTOUT_NODE],
         npit[:, inode.JAC_DERIV_DT_N], bp[:, ib.LOAD_VEC_BRANCHES_T], bp[:, ib.LOAD_VEC_NODES_TO_T],
         npit[:, inode.LOAD_T]]
    return "asm heat %d %d :: %s" % (len(npit), len(bp), " | ".join(_ints(x) for x in f))


def real_dense(npit, bp, heat, use_numba, update=False, net=None):
    from pandapipes.pf.build_system_matrix import build_system_matrix
    net = net if net is not None else _net_stub(use_numba, update)
    J, rhs = build_system_matrix(net, bp.copy(), npit.copy(), heat)
    return np.asarray(J.todense()), np.asarray(rhs)


def parse_model(line):
    mat, rhs = line.split(" # ")
    rows = [[int(x) for x in r.split()] for r in mat.split(";")] if mat.strip() else []
    return np.array(rows, dtype=float), np.array([int(x) for x in rhs.split()], dtype=float)


def run(seed, n_cases, modes=("hyd", "heat")):
    rng = np.random.default_rng([seed, 77])
    drv = LeanDriver()
    cases, lines = [], []
    for i in range(n_cases):
        mode = modes[i % len(modes)]
        npit, bp = random_hyd_pit(rng) if mode == "hyd" else random_heat_pit(rng)
        if len(bp) == 0 and mode == "heat":
            npit, bp = random_heat_pit(rng, bmax=6)
        cases.append((mode, npit, bp))
        lines.append(hyd_line(npit, bp) if mode == "hyd" else heat_line(npit, bp))
    out = drv.run(lines)
    bad = []
    stats = {"hyd": 0, "heat": 0, "with_pc": 0, "parallel_or_loop_branches": 0, "update_path": 0, "real_raised": 0}
    for (mode, npit, bp), line, o in zip(cases, lines, out):
        stats[mode] += 1
        if o.startswith("bad"):
            bad.append({"case": line, "error": o})
            continue
        Jm, rm = parse_model(o)
        for use_numba in (False, True):
            try:
                Jr, rr = real_dense(npit, bp, mode == "heat", use_numba)
            except Exception as e:
                stats["real_raised"] += 1
                # the real function rejects the input (e.g. shape mismatch); the model has no such guard
                continue
            dim = Jr.shape[0]
            Jm2 = Jm.reshape(dim, dim) if Jm.size == dim * dim else Jm
            if Jm2.shape != Jr.shape or not np.array_equal(Jm2, Jr) or not np.array_equal(rm, rr):
                bad.append({"case": line, "use_numba": use_numba, "what": "dense system differs",
                            "real_rhs": rr.tolist(), "model_rhs": rm.tolist(),
                            "first_diff": _first_diff(Jm2, Jr)})
                break
        if mode == "hyd" and len(bp):
            # update path: first call stores the structure, second call only swaps data (C07)
            try:
                net = _net_stub(True, update=True)
                J1, r1 = real_dense(npit, bp, False, True, net=net)
                bp2 = bp.copy()
                from pandapipes import idx_branch as ib
                bp2[:, ib.JAC_DERIV_DM] += 1
                J2, r2 = real_dense(npit, bp2, False, True, net=net)
                Jf, rf = real_dense(npit, bp2, False, True)
                stats["update_path"] += 1
                if not (np.array_equal(J1, Jm.reshape(J1.shape)) and np.array_equal(J2, Jf) and np.array_equal(r2, rf)):
                    bad.append({"case": line, "what": "only_update_hydraulic_matrix path differs from fresh assembly"})
            except Exception as e:
                bad.append({"case": line, "what": "update path raised %r" % (e,)})
    return bad, dict(stats, cases=len(cases))


def _first_diff(a, b):
    if a.shape != b.shape:
        return "shape %s vs %s" % (a.shape, b.shape)
    idx = np.argwhere(a != b)
    if len(idx) == 0:
        return None
    r, c = idx[0]
    return {"row": int(r), "col": int(c), "model": float(a[r, c]), "real": float(b[r, c])}


if __name__ == "__main__":
    import json
    import sys
    b, s = run(int(sys.argv[1]) if len(sys.argv) > 1 else 0, int(sys.argv[2]) if len(sys.argv) > 2 else 300)
    print(json.dumps(s))
    print(json.dumps(b[:3], indent=1)[:3000])
