"""
Structured random network generator.  A network is a JSON-able *spec* (so replays are self-contained
and metamorphic rewrites operate on the spec); `build(spec)` creates the pandapipes net with the
repository's own create_* functions.  All random choices come from the numpy Generator passed in.

Junctions are referred to by their position in spec["junctions"]; the pandapipes index label is
spec["junctions"][k]["index"] (labels can be contiguous, shuffled or sparse/large).
"""
import copy
import json

import numpy as np

GASES = ["lgas", "hgas", "hydrogen", "methane"]
BRANCH_TABLES = ["pipes", "valves", "pumps", "compressors", "flow_controls", "press_controls", "heat_exchangers",
                 "heat_consumers", "circ_pumps_p", "circ_pumps_m"]
NODE_TABLES = ["ext_grids", "sinks", "sources", "mass_storages"]


def _labels(rng, n, style):
    if style == "contiguous":
        return list(range(n))
    if style == "shuffled":
        return [int(x) for x in rng.permutation(n)]
    if style == "sparse":
        return [int(x) for x in rng.choice(np.arange(0, 40 * n + 50), size=n, replace=False)]
    if style == "large":
        base = int(rng.integers(10 ** 5, 4 * 10 ** 6))
        return [int(x) for x in base + rng.choice(np.arange(0, 30 * n + 10), size=n, replace=False)]
    raise ValueError(style)


def empty_spec(fluid):
    s = {"fluid": fluid, "junctions": [], "options": {}}
    for t in BRANCH_TABLES + NODE_TABLES:
        s[t] = []
    return s


def _element_labels(rng, s):
    """explicit, non-ascending / sparse index labels for the branch tables (their row order stays the creation order)"""
    if rng.random() < 0.3:
        for t in ("pipes", "pumps", "heat_exchangers", "flow_controls"):
            if len(s[t]) > 1 and not any("index" in e for e in s[t]):
                lab = _labels(rng, len(s[t]), str(rng.choice(["shuffled", "sparse"])))
                for e, l in zip(s[t], lab):
                    e["index"] = int(l)


def _wall(rng, s):
    """pipes with a wall: the outer diameter (heat-loss perimeter) differs from the inner one (flow area)"""
    _element_labels(rng, s)
    if s["pipes"] and rng.random() < 0.35:
        w = float(rng.choice([6.0, 12.0, 25.0]))
        for p in s["pipes"]:
            p["outer_mm"] = p["d_mm"] + w


def gen_hydraulic(rng, n_junc=None, fluid=None, features=None):
    """Supply network: meshed core with ext grids, pendant subtrees behind pumps / compressors /
    pressure controllers; flow controllers only on chords; random outages."""
    features = features or {}
    if fluid is None:
        fluid = "water" if rng.random() < 0.55 else str(rng.choice(GASES))
    gas = fluid != "water"
    n = int(n_junc or rng.integers(2, 25))
    s = empty_spec(fluid)
    label_style = features.get("labels") or str(rng.choice(["contiguous", "contiguous", "shuffled", "sparse", "large"]))
    labels = _labels(rng, n, label_style)
    flat = rng.random() < 0.5
    t0 = float(rng.choice([283.15, 293.15, 313.15, 333.15])) if not gas else float(rng.choice([283.15, 293.15]))
    pn = float(rng.uniform(3, 12)) if not gas else float(rng.choice([0.05, 0.8, 4.0, 16.0]) * rng.uniform(1, 1.3))
    # junction temperatures: uniform, or an individual (given) temperature per junction -- in hydraulics mode they are
    # inputs that set the fluid properties of the adjacent branches
    vary_t = rng.random() < features.get("p_vary_t", 0.25)
    for k in range(n):
        tk = t0 if not vary_t else float(np.clip(t0 + rng.uniform(-8, 45 if not gas else 30), 278.15, 363.15))
        s["junctions"].append({"pn_bar": pn * float(rng.uniform(0.9, 1.0)), "tfluid_k": tk,
                               "height_m": 0.0 if flat else float(rng.choice([0, 0, 5, 12.5, -8, 40]) if not gas
                                                                    else rng.choice([0, 0, 10, 80])),
                               "in_service": True, "index": labels[k]})
    # random spanning tree (random recursive tree) + chords + parallel edges
    edges = []
    for k in range(1, n):
        edges.append((int(rng.integers(0, k)), k, "tree"))
    n_chords = int(rng.integers(0, max(1, n // 3) + 1)) if n > 2 else 0
    for _ in range(n_chords):
        a, b = (int(x) for x in rng.choice(n, 2, replace=False))
        edges.append((a, b, "chord"))
    if n >= 2 and rng.random() < 0.3:
        a, b, _k = edges[int(rng.integers(0, len(edges)))]
        edges.append((a, b, "chord"))    # parallel branch
    # which tree edges are bridges w.r.t. chords: compute 2-edge-connectivity crudely via cycle marking
    parent = {b: a for a, b, kind in edges if kind == "tree"}

    def path_to_root(v):
        p = [v]
        while v in parent:
            v = parent[v]
            p.append(v)
        return p

    on_cycle = set()
    for a, b, kind in edges:
        if kind != "chord":
            continue
        pa, pb = path_to_root(a), path_to_root(b)
        sa = set(pa)
        lca = next(x for x in pb if x in sa)
        for p in (pa, pb):
            for v in p:
                if v == lca:
                    break
                on_cycle.add(v)   # edge (parent[v], v) is on a cycle
    children = {}
    for b, a in parent.items():
        children.setdefault(a, []).append(b)

    def subtree(v):
        out, st = [], [v]
        while st:
            x = st.pop()
            out.append(x)
            st.extend(children.get(x, []))
        return out

    # ext grids: always one at the root; possibly more, possibly several on one junction
    grid_nodes = [0]
    if n > 3 and rng.random() < 0.35:
        grid_nodes.append(int(rng.integers(1, n)))
    p_set = pn
    for g in grid_nodes:
        s["ext_grids"].append({"junction": g, "p_bar": p_set * float(rng.uniform(0.97, 1.0)) if g else p_set,
                               "t_k": t0, "type": "pt", "in_service": True})
    if rng.random() < 0.25:
        s["ext_grids"].append({"junction": 0, "p_bar": p_set * float(rng.uniform(0.98, 1.02)), "t_k": t0, "type": "pt",
                               "in_service": bool(rng.random() < 0.7)})
    if rng.random() < 0.15:
        s["ext_grids"].append({"junction": grid_nodes[-1], "p_bar": p_set * 0.5, "t_k": t0, "type": "pt", "in_service": False})
    grid_set = set(grid_nodes)

    special_used = set()
    for (a, b, kind) in edges:
        r = rng.random()
        is_bridge = kind == "tree" and b not in on_cycle
        sub = subtree(b) if is_bridge else []
        sub_has_grid = any(x in grid_set for x in sub)
        d_mm = float(rng.choice([50, 80, 100, 150, 200, 300]))
        if is_bridge and not sub_has_grid and r < features.get("p_special", 0.22) and not (special_used & set(sub)):
            # special branch feeding a pendant subtree
            kind2 = str(rng.choice(["pump", "press_control", "compressor" if gas else "pump", "valve_ju"]))
            special_used |= set(sub)
            if kind2 == "pump":
                s["pumps"].append({"from": a, "to": b, "std_type": str(rng.choice(["P1", "P2", "P3"])), "in_service": True})
                continue
            if kind2 == "press_control":
                s["press_controls"].append({"from": a, "to": b, "controlled": b,
                                            "p_bar": p_set * float(rng.uniform(0.6, 0.9)),
                                            "control_active": bool(rng.random() < 0.85), "loss": 0.0, "in_service": True})
                continue
            if kind2 == "compressor":
                s["compressors"].append({"from": a, "to": b, "ratio": float(rng.uniform(1.05, 1.6)), "in_service": True})
                continue
            s["valves"].append({"junction": a, "element": b, "et": "ju", "d_mm": d_mm,
                                "opened": bool(rng.random() < 0.8), "loss": float(rng.choice([0, 0.5, 3.0]))})
            continue
        if kind == "chord" and r < features.get("p_fc", 0.12):
            s["flow_controls"].append({"from": a, "to": b, "mdot": float(rng.uniform(0.01, 0.3)) * (0.02 if gas else 1.0),
                                       "control_active": bool(rng.random() < 0.8), "in_service": True})
            continue
        if r > 0.93:
            s["valves"].append({"junction": a, "element": b, "et": "ju", "d_mm": d_mm,
                                "opened": bool(rng.random() < 0.75), "loss": float(rng.choice([0, 0.5, 3.0]))})
            continue
        if r > 0.93 - features.get("p_hex", 0.05):
            # a heat exchanger is, hydraulically, a zero-length branch with its own diameter and a lumped loss coefficient
            if rng.random() < 0.5:
                a, b = b, a
            s["heat_exchangers"].append({"from": a, "to": b, "qext_w": float(rng.choice([0.0, 2e3, -1e3])), "d_mm": d_mm,
                                         "loss": float(rng.choice([0.5, 3.0, 10.0])), "in_service": True})
            continue
        if rng.random() < 0.5:
            a, b = b, a
        s["pipes"].append({"from": a, "to": b, "length_km": float(rng.choice([0.02, 0.1, 0.35, 1.2, 3.0])) * float(rng.uniform(0.7, 1.3)),
                           "d_mm": d_mm, "k_mm": float(rng.choice([0.01, 0.1, 0.2, 1.0])),
                           "sections": int(rng.choice([1, 1, 1, 2, 3, 6])), "loss": float(rng.choice([0, 0, 0, 1.5])),
                           "u_w_per_m2k": float(rng.choice([0.0, 1.0, 10.0])), "text_k": float(rng.choice([283.15, 293.15])),
                           "in_service": True})
    # pipe valves (junction-pipe)
    if s["pipes"] and rng.random() < features.get("p_pipe_valve", 0.25):
        # one or several junction-to-pipe valves on distinct pipe ends (either end of the pipe), in random row order
        ends = [(pi, side) for pi in range(len(s["pipes"])) for side in ("from", "to")]
        k = min(len(ends), int(rng.choice([1, 1, 2, 3, 4])))
        for e in rng.permutation(len(ends))[:k]:
            pi, side = ends[int(e)]
            if side == "to" and s["pipes"][pi]["from"] == s["pipes"][pi]["to"]:
                continue
            s["valves"].append({"junction": s["pipes"][pi][side], "element": pi, "et": "pi", "d_mm": 100.0,
                                "opened": bool(rng.random() < (0.6 if k == 1 else 0.85)), "loss": 0.0})
    # loads
    scale = (0.03 if gas else 1.0) * float(rng.choice([0.2, 1.0, 1.0, 3.0]))
    for k in range(1, n):
        r = rng.random()
        if r < 0.55:
            s["sinks"].append({"junction": k, "mdot": float(rng.uniform(0.02, 0.6)) * scale,
                               "scaling": float(rng.choice([1.0, 1.0, 0.5, 2.0])), "in_service": bool(rng.random() < 0.92)})
        if r > 0.85:
            s["sources"].append({"junction": k, "mdot": float(rng.uniform(0.01, 0.2)) * scale,
                                 "scaling": float(rng.choice([1.0, 1.0, 1.5])), "in_service": bool(rng.random() < 0.9)})
        if 0.5 < r < 0.58:
            s["sinks"].append({"junction": k, "mdot": float(rng.uniform(0.02, 0.3)) * scale, "scaling": 1.0, "in_service": True})
        if r < 0.06:
            s["mass_storages"].append({"junction": k, "mdot": float(rng.uniform(-0.1, 0.2)) * scale, "scaling": 1.0,
                                       "in_service": True})
    if rng.random() < features.get("p_micro_load", 0.1) and n > 2:
        # a vanishing but non-zero consumption (a leaking fitting, a rounding residue of a profile): admissible, and it gives
        # its feeder a Reynolds number near zero, i.e. a huge laminar friction factor 64/Re next to ordinary ones
        s["sinks"].append({"junction": int(rng.integers(1, n)), "mdot": float(rng.choice([1e-12, 1e-10])), "scaling": 1.0,
                           "in_service": True})
    # outages
    if rng.random() < features.get("p_outage", 0.35):
        for _ in range(int(rng.integers(1, 3))):
            c = rng.random()
            if c < 0.4 and s["pipes"]:
                s["pipes"][int(rng.integers(0, len(s["pipes"])))]["in_service"] = False
            elif c < 0.6 and n > 2:
                s["junctions"][int(rng.integers(1, n))]["in_service"] = False
            elif c < 0.8 and s["valves"]:
                s["valves"][int(rng.integers(0, len(s["valves"])))]["opened"] = False
            elif s["pumps"]:
                s["pumps"][0]["in_service"] = False
    s["options"] = {"friction_model": str(rng.choice(["nikuradse", "nikuradse", "colebrook", "swamee-jain"])),
                    "use_numba": bool(rng.random() < 0.5),
                    "nonlinear_method": str(rng.choice(["constant", "automatic"])),
                    "mode": "hydraulics", "max_iter_hyd": 60, "max_iter_therm": 60, "max_iter_bidirect": 60}
    if s["options"]["friction_model"] == "colebrook":
        s["options"]["max_iter_colebrook"] = 100
    fix_service_consistency(s)
    _wall(rng, s)
    return s


def fix_service_consistency(s):
    """pandapipes requires branches at out-of-service junctions to be out of service themselves
    (otherwise the connectivity check re-activates or raises); keep generated nets consistent."""
    dead = {k for k, j in enumerate(s["junctions"]) if not j["in_service"]}
    for t in ("pipes", "pumps", "compressors", "flow_controls", "press_controls", "heat_exchangers", "heat_consumers"):
        for e in s[t]:
            if e["from"] in dead or e["to"] in dead:
                e["in_service"] = False
    for v in s["valves"]:
        if v["et"] == "ju" and (v["junction"] in dead or v["element"] in dead):
            v["opened"] = False
    for t in ("circ_pumps_p", "circ_pumps_m"):
        for e in s[t]:
            if e["return"] in dead or e["flow"] in dead:
                e["in_service"] = False


def gen_heat_tree(rng, n_junc=None):
    """water tree fed by one pt ext grid, sinks at leaves, thermal calculation"""
    n = int(n_junc or rng.integers(2, 14))
    s = empty_spec("water")
    labels = _labels(rng, n, str(rng.choice(["contiguous", "shuffled", "sparse"])))
    t_feed = float(rng.uniform(330, 370))
    t0 = float(rng.choice([293.15, 320.0]))
    for k in range(n):
        s["junctions"].append({"pn_bar": 6.0, "tfluid_k": t0, "height_m": 0.0, "in_service": True, "index": labels[k]})
    s["ext_grids"].append({"junction": 0, "p_bar": 6.0, "t_k": t_feed, "type": "pt", "in_service": True})
    has_child = set()
    for k in range(1, n):
        a = int(rng.integers(0, k))
        has_child.add(a)
        fr, to = (a, k) if rng.random() < 0.6 else (k, a)
        s["pipes"].append({"from": fr, "to": to, "length_km": float(rng.uniform(0.05, 1.5)),
                           "d_mm": float(rng.choice([50, 80, 100, 150])), "k_mm": 0.1,
                           "sections": int(rng.choice([1, 1, 2, 4])), "loss": 0.0,
                           "u_w_per_m2k": float(rng.choice([0.0, 0.5, 2.0, 10.0])),
                           "text_k": float(rng.choice([273.15, 283.15, 293.15])), "in_service": True})
    # a chord to create a mesh with two inflows somewhere
    if n > 3 and rng.random() < 0.5:
        a, b = (int(x) for x in rng.choice(n, 2, replace=False))
        s["pipes"].append({"from": a, "to": b, "length_km": float(rng.uniform(0.05, 1.0)), "d_mm": 80.0, "k_mm": 0.1,
                           "sections": int(rng.choice([1, 3])), "loss": 0.0, "u_w_per_m2k": float(rng.choice([0.0, 2.0])),
                           "text_k": 283.15, "in_service": True})
    for k in range(1, n):
        if k not in has_child or rng.random() < 0.3:
            s["sinks"].append({"junction": k, "mdot": float(rng.uniform(0.05, 1.0)), "scaling": 1.0, "in_service": True})
    if not s["sinks"]:
        s["sinks"].append({"junction": n - 1, "mdot": 0.3, "scaling": 1.0, "in_service": True})
    s["options"] = {"mode": "sequential", "use_numba": bool(rng.random() < 0.5), "friction_model": "nikuradse",
                    "max_iter_hyd": 60, "max_iter_therm": 60, "max_iter_bidirect": 60}
    _wall(rng, s)
    return s


def gen_gas_heat_tree(rng, n_junc=None):
    """gas tree with heat losses in a thermal calculation: pipes declared with and against the flow, so the gas
    post-processing (norm factors, gas velocities) meets reverse flow with a temperature change along the branch"""
    s = gen_heat_tree(rng, n_junc=n_junc or int(rng.integers(2, 9)))
    s["fluid"] = str(rng.choice(GASES))
    for e in s["sinks"]:
        e["mdot"] *= 0.02
    for p in s["pipes"]:
        p["d_mm"] = float(max(p["d_mm"], 80.0))
        if p["u_w_per_m2k"] == 0.0 and rng.random() < 0.7:
            p["u_w_per_m2k"] = float(rng.choice([2.0, 10.0, 25.0]))
    s["options"]["mode"] = str(rng.choice(["sequential", "bidirectional"]))
    return s


HC_MODES = ["MF_QE", "MF_DT", "MF_TR", "QE_DT", "QE_TR"]


def add_thermal_island(rng, s):
    """a second, hydraulically supplied part that no temperature source reaches: a pressure-only ext grid feeding a sink
    through one or two pipes.  Its temperatures are not part of the heat-transfer system."""
    n0 = len(s["junctions"])
    top = max(j["index"] for j in s["junctions"])
    k = int(rng.integers(2, 4))
    for i in range(k):
        s["junctions"].append({"pn_bar": 4.0, "tfluid_k": float(rng.choice([293.15, 320.0, 345.0])), "height_m": 0.0,
                               "in_service": True, "index": top + 2 + 3 * i})
    s["ext_grids"].append({"junction": n0, "p_bar": 4.0, "t_k": 300.0, "type": "p", "in_service": True})
    for i in range(k - 1):
        s["pipes"].append({"from": n0 + i, "to": n0 + i + 1, "length_km": float(rng.uniform(0.05, 0.4)), "d_mm": 80.0,
                           "k_mm": 0.1, "sections": int(rng.choice([1, 2])), "loss": 0.0, "u_w_per_m2k": 1.0,
                           "text_k": 283.15, "in_service": True})
    s["sinks"].append({"junction": n0 + k - 1, "mdot": float(rng.uniform(0.05, 0.4)), "scaling": 1.0, "in_service": True})
    return s


def gen_heat_loop(rng, n_cons=None, modes=None, with_hex=True, makeup=False, recirc=False):
    """district heating loop: circulation pump feeds a flow line, consumers / exchangers connect flow
    and return line rungs (ladder network)."""
    k = int(n_cons or rng.integers(1, 6))
    s = empty_spec("water")
    n = 2 * (k + 1)
    labels = _labels(rng, n, str(rng.choice(["contiguous", "shuffled", "sparse"])))
    t_flow = float(rng.uniform(340, 370))
    for j in range(n):
        s["junctions"].append({"pn_bar": 5.0, "tfluid_k": float(rng.choice([t_flow, 320.0])), "height_m": 0.0,
                               "in_service": True, "index": labels[j]})
    # junction 2i = flow side node i, 2i+1 = return side node i (i = 0 is at the pump)
    pump_mass = rng.random() < 0.5
    modes = modes or [str(rng.choice(HC_MODES)) for _ in range(k)]
    total_m = 0.0
    cons = []
    for i in range(1, k + 1):
        mode = modes[i - 1]
        m = float(rng.uniform(0.1, 0.8))
        dT = float(rng.uniform(10, 35))
        q = m * 4186.0 * dT
        c = {"from": 2 * i, "to": 2 * i + 1, "qext_w": None, "mdot": None, "deltat_k": None, "treturn_k": None,
             "in_service": True}
        if mode == "MF_QE":
            c["mdot"], c["qext_w"] = m, q * (1 if rng.random() < 0.85 else -0.3)
        elif mode == "MF_DT":
            # a negative temperature difference is a heat-injecting unit (the fluid leaves warmer)
            c["mdot"], c["deltat_k"] = m, (dT if rng.random() < 0.85 else -0.4 * dT)
        elif mode == "MF_TR":
            c["mdot"], c["treturn_k"] = m, t_flow - dT
        elif mode == "QE_DT":
            sg = 1.0 if rng.random() < 0.85 else -0.4
            c["qext_w"], c["deltat_k"] = sg * q, sg * dT
        elif mode == "QE_TR":
            c["qext_w"], c["treturn_k"] = q, t_flow - dT
        c["mode"] = mode
        total_m += m
        cons.append(c)
    s["heat_consumers"] = cons
    for i in range(k):
        for side in (0, 1):
            a, b = 2 * i + side, 2 * (i + 1) + side
            if side == 1:
                a, b = b, a          # return line flows back to the pump
            if rng.random() < 0.2:
                a, b = b, a          # declared against the flow
            s["pipes"].append({"from": a, "to": b, "length_km": float(rng.uniform(0.05, 0.6)),
                               "d_mm": float(rng.choice([80, 100, 150])), "k_mm": 0.1,
                               "sections": int(rng.choice([1, 1, 2, 4])), "loss": 0.0,
                               "u_w_per_m2k": float(rng.choice([0.0, 0.5, 3.0])), "text_k": 283.15, "in_service": True})
    if with_hex and rng.random() < 0.4:
        # a heat exchanger needs a prescribed flow: put it in series with a flow controller rung
        nj = len(s["junctions"])
        s["junctions"].append({"pn_bar": 5.0, "tfluid_k": t_flow, "height_m": 0.0, "in_service": True,
                               "index": max(j["index"] for j in s["junctions"]) + 3})
        i = int(rng.integers(1, k + 1))
        mf = float(rng.uniform(0.1, 0.5))
        s["flow_controls"].append({"from": 2 * i, "to": nj, "mdot": mf, "control_active": True, "in_service": True})
        hx_rev = bool(rng.random() < 0.3)          # declared against the flow
        s["heat_exchangers"].append({"from": (2 * i + 1) if hx_rev else nj, "to": nj if hx_rev else (2 * i + 1),
                                     "qext_w": mf * 4186.0 * float(rng.uniform(5, 30)),
                                     "d_mm": float(rng.choice([80.0, 100.0, 100.0, 150.0])),
                                     "loss": float(rng.choice([0.0, 0.0, 2.0])), "in_service": True})
        total_m += mf
    if pump_mass:
        s["circ_pumps_m"].append({"return": 1, "flow": 0, "p_flow_bar": 6.0, "mdot": total_m * float(rng.uniform(1.0, 1.0)),
                                  "t_flow_k": t_flow, "in_service": True})
        # a mass circulation pump prescribes the loop flow: consumers must then not all prescribe it too
        # -> give the network a bypass so that the hydraulic problem stays well posed
        s["pipes"].append({"from": 2 * k, "to": 2 * k + 1, "length_km": 0.05, "d_mm": 50.0, "k_mm": 0.1, "sections": 1,
                           "loss": 0.0, "u_w_per_m2k": 0.0, "text_k": 283.15, "in_service": True})
        s["circ_pumps_m"][0]["mdot"] = total_m + float(rng.uniform(0.05, 0.3))
    else:
        s["circ_pumps_p"].append({"return": 1, "flow": 0, "p_flow_bar": 6.0, "plift_bar": float(rng.uniform(1.0, 3.0)),
                                  "t_flow_k": t_flow, "in_service": True})
    if recirc and not pump_mass:
        # recirculation: a prescribed flow from the far end of the return line straight back into the pump's flow junction, where
        # it mixes with the pump's outlet stream (the flow junction then has two inflows of different temperature)
        s["flow_controls"].append({"from": 2 * k + 1, "to": 0, "mdot": float(rng.uniform(0.05, 0.3)), "control_active": True,
                                   "in_service": True})
    if makeup:
        # make-up supply: one or two ext grids on the circulation pump's flow junction (same set-points as the pump) and a
        # small net consumption somewhere in the loop, which only the ext grids can feed
        for _ in range(int(rng.choice([1, 1, 2]))):
            s["ext_grids"].append({"junction": 0, "p_bar": 6.0, "t_k": t_flow, "type": "pt", "in_service": True})
        s["sinks"].append({"junction": int(rng.integers(1, n)), "mdot": float(rng.uniform(0.02, 0.2)), "scaling": 1.0,
                           "in_service": True})
    s["options"] = {"mode": str(rng.choice(["sequential", "bidirectional"])), "use_numba": bool(rng.random() < 0.5),
                    "friction_model": "nikuradse", "max_iter_hyd": 100, "max_iter_therm": 100, "max_iter_bidirect": 100}
    _wall(rng, s)
    return s


# ---------------------------------------------------------------------------------------------------
DEFAULT_ORDER = ["ext_grids", "sinks", "sources", "mass_storages", "pipes", "valves", "pumps", "compressors",
                 "flow_controls", "press_controls", "heat_exchangers", "heat_consumers", "circ_pumps_p", "circ_pumps_m"]


def build(spec, run_options=False, order=None, row_perm=None):
    """create the pandapipes net described by spec.  `order`: creation order of the element tables (valves must
    come after pipes when junction-pipe valves exist); `row_perm`: table -> permutation of row creation order
    (elements then need explicit "index" labels to keep their identity)."""
    import pandapipes as pp
    if spec.get("sector"):
        from pandapipes.pandapipes_net import Sector
        net = pp.create_empty_network(fluid=spec["fluid"], sector=Sector(spec["sector"]))
    else:
        net = pp.create_empty_network(fluid=spec["fluid"])
    J = []
    jorder = list(range(len(spec["junctions"])))
    if row_perm and "junctions" in row_perm:
        jorder = list(row_perm["junctions"])
    J = [None] * len(spec["junctions"])
    for k in jorder:
        j = spec["junctions"][k]
        J[k] = pp.create_junction(net, pn_bar=j["pn_bar"], tfluid_k=j["tfluid_k"], height_m=j["height_m"],
                                  in_service=j["in_service"], index=j.get("index"))
    P = {}

    def rows(t):
        idx = list(range(len(spec[t])))
        if row_perm and t in row_perm:
            idx = list(row_perm[t])
        return [(i, spec[t][i]) for i in idx]

    def mk(t):
        for i, e in rows(t):
            if t == "ext_grids":
                pp.create_ext_grid(net, J[e["junction"]], p_bar=e["p_bar"], t_k=e["t_k"], type=e.get("type", "pt"),
                                   in_service=e["in_service"], index=e.get("index"))
            elif t == "sinks":
                pp.create_sink(net, J[e["junction"]], mdot_kg_per_s=e["mdot"], scaling=e["scaling"],
                               in_service=e["in_service"], index=e.get("index"))
            elif t == "sources":
                pp.create_source(net, J[e["junction"]], mdot_kg_per_s=e["mdot"], scaling=e["scaling"],
                                 in_service=e["in_service"], index=e.get("index"))
            elif t == "mass_storages":
                pp.create_mass_storage(net, J[e["junction"]], mdot_kg_per_s=e["mdot"], scaling=e["scaling"],
                                       in_service=e["in_service"], index=e.get("index"))
            elif t == "pipes":
                P[i] = pp.create_pipe_from_parameters(
                    net, J[e["from"]], J[e["to"]], length_km=e["length_km"], inner_diameter_mm=e["d_mm"], k_mm=e["k_mm"],
                    sections=e["sections"], loss_coefficient=e["loss"], u_w_per_m2k=e["u_w_per_m2k"], text_k=e["text_k"],
                    in_service=e["in_service"], index=e.get("index"), outer_diameter_mm=e.get("outer_mm"))
            elif t == "valves":
                el = J[e["element"]] if e["et"] == "ju" else P[e["element"]]
                pp.create_valve(net, J[e["junction"]], el, e["et"], inner_diameter_mm=e["d_mm"], opened=e["opened"],
                                loss_coefficient=e["loss"], index=e.get("index"))
            elif t == "pumps":
                pp.create_pump(net, J[e["from"]], J[e["to"]], std_type=e["std_type"], in_service=e["in_service"],
                               index=e.get("index"))
            elif t == "compressors":
                pp.create_compressor(net, J[e["from"]], J[e["to"]], pressure_ratio=e["ratio"], in_service=e["in_service"],
                                     index=e.get("index"))
            elif t == "flow_controls":
                pp.create_flow_control(net, J[e["from"]], J[e["to"]], controlled_mdot_kg_per_s=e["mdot"],
                                       control_active=e["control_active"], in_service=e["in_service"], index=e.get("index"))
            elif t == "press_controls":
                pp.create_pressure_control(net, J[e["from"]], J[e["to"]], J[e["controlled"]], controlled_p_bar=e["p_bar"],
                                           control_active=e["control_active"], loss_coefficient=e["loss"],
                                           in_service=e["in_service"], index=e.get("index"), check_controllability=False)
            elif t == "heat_exchangers":
                pp.create_heat_exchanger(net, J[e["from"]], J[e["to"]], qext_w=e["qext_w"], inner_diameter_mm=e["d_mm"],
                                         loss_coefficient=e["loss"], in_service=e["in_service"], index=e.get("index"))
            elif t == "heat_consumers":
                pp.create_heat_consumer(net, J[e["from"]], J[e["to"]], qext_w=e["qext_w"],
                                        controlled_mdot_kg_per_s=e["mdot"], deltat_k=e["deltat_k"], treturn_k=e["treturn_k"],
                                        in_service=e["in_service"], index=e.get("index"))
            elif t == "circ_pumps_p":
                pp.create_circ_pump_const_pressure(net, J[e["return"]], J[e["flow"]], p_flow_bar=e["p_flow_bar"],
                                                   plift_bar=e["plift_bar"], t_flow_k=e["t_flow_k"],
                                                   in_service=e["in_service"], index=e.get("index"))
            elif t == "circ_pumps_m":
                pp.create_circ_pump_const_mass_flow(net, J[e["return"]], J[e["flow"]], p_flow_bar=e["p_flow_bar"],
                                                    mdot_flow_kg_per_s=e["mdot"], t_flow_k=e["t_flow_k"],
                                                    in_service=e["in_service"], index=e.get("index"))

    for t in (order or DEFAULT_ORDER):
        mk(t)
    return net


def run(net, spec, **override):
    import pandapipes as pp
    opts = dict(spec.get("options", {}))
    opts.update(override)
    pp.pipeflow(net, **opts)


def try_run(spec, build_kw=None, **override):
    """build and run; returns (net, None) or (net, exception)"""
    import warnings
    net = build(spec, **(build_kw or {}))
    try:
        with warnings.catch_warnings():
            warnings.simplefilter("ignore")
            run(net, spec, **override)
        return net, None
    except Exception as e:
        return net, e


def structure_hash(spec):
    """canonical structural hash used to count distinct cases"""
    key = {t: [(e.get("from", e.get("junction", e.get("return"))), e.get("to", e.get("element", e.get("flow"))),
                e.get("in_service", e.get("opened"))) for e in spec[t]] for t in BRANCH_TABLES + NODE_TABLES}
    key["n"] = len(spec["junctions"])
    key["fluid"] = spec["fluid"]
    key["opts"] = sorted((k, str(v)) for k, v in spec.get("options", {}).items())
    import hashlib
    return hashlib.sha256(json.dumps(key, sort_keys=True).encode()).hexdigest()[:16]


def nontrivial(spec):
    kinds = sum(1 for t in BRANCH_TABLES if spec[t])
    n_br = sum(len(spec[t]) for t in BRANCH_TABLES if t != "valves") + sum(1 for v in spec["valves"] if v["et"] == "ju")
    loops = n_br - (len(spec["junctions"]) - 1)
    return kinds >= 2 or loops >= 1


def summarize(spec):
    d = {"fluid": spec["fluid"], "junctions": len(spec["junctions"])}
    for t in BRANCH_TABLES + NODE_TABLES:
        if spec[t]:
            d[t] = len(spec[t])
    d["options"] = spec.get("options", {})
    return d


def clone(spec):
    return copy.deepcopy(spec)
