#!/bin/sh
# Build the framework from files on disk only (offline): regenerate the model from /repo, compile theorems + driver.
set -e
cd "$(dirname "$0")"
python3 translator/gen_all.py > /dev/null || echo "translator reported problems (checks will report them)"
cd lean
lake build PPV driver 2>&1 | tail -3
