# property table for tools/make_manifest.py (exec'd there): chk(id, level text, level note, technique, design ref)
chk("C01",
    "Lean theorems (any topology / size / numbering): the assembled Newton system's node rows are the nodal mass balance, "
    "a full step leaves zero imbalance at every non-slack node, the slack mass closes the balance at pressure-fixing nodes, "
    "global feed-in = consumption - injection, pipe sections carry equal flow; the generated kernels provably write the "
    "coefficients these theorems assume. The assembly model is tied to build_system_matrix by exact dense-matrix "
    "correspondence, the kernels by bitwise self-check; an oracle sums reported flows per junction on generated nets.",
    "Linear solve (spsolve) and result write-back are exercised by the search, not proved.",
    "Lean 4 proof over translated kernels + assembly model; exact correspondence; nodal-balance oracle search", "8/C01")
chk("C02",
    "Lean theorems over the kernels regenerated from the current source: the liquid residual equals pressure difference + lift + "
    "the documented Darcy-Weisbach/hydrostatic/lumped loss (all parameter values), the gas residual equals the integrated "
    "real-gas law of the documentation, mean-pressure formula and bounds, Reynolds number, laminar and Nikuradse factors "
    "(liquid and gas forms), friction-loss column. Constants come from constants.py via the translator. The oracle re-evaluates "
    "the law, v, Re, lambda and norm factors from res_* tables on generated nets for all three friction models.",
    "Colebrook and Swamee-Jain factors are checked by the oracle only (implicit / not in the documentation as a formula); "
    "result extraction arithmetic (v, norm factors) is exercised by the oracle, not yet translated.",
    "Lean 4 proof over translated kernels; bitwise translator self-check; law-residual oracle search", "8/C02")
chk("C07",
    "Lean theorems, for all real inputs, that each numpy kernel equals its numba twin (liquid and gas residuals/derivatives, "
    "Nikuradse factors, mean pressure, derived values, thermal node and branch terms, flow tests), with the two genuine twin "
    "differences stated exactly and proved confined to zero-flow Jacobian entries; both twins are regenerated from source on "
    "every run and compared bitwise / within 4 ulp with the python functions. The assembly model covers the matrix-update path. "
    "Oracle: engine pairs, update option (hydraulic and thermal), reuse_internal_data with edited loads.",
    "Float-level agreement of the engines is measured, not proved. Known finding: update option + active pressure controller.",
    "Lean 4 proof of twin equality over translated kernels; bitwise self-check; differential engine/option runs", "8/C07")
chk("C14",
    "Lean theorems over the option-resolution model for all layers (arbitrary dicts): plain precedence call > user > default for "
    "every key outside the documented couplings (unknown keys carried, absent keys stay absent), the exact iter/stage-limit "
    "precedence chain, reuse/update coupling, deprecated mode mapping, numba fallback, fluid entry, dropped plotting keys, and "
    "documented = actual defaults (both tables regenerated from source, decided by kernel evaluation). The hand-written model is "
    "tied to init_options by an exhaustive correspondence: every option key x presence pattern, all 576 iter/stage-key patterns "
    "of both layers, all coupling patterns, numba installed or not; input layers are checked for mutation.",
    "Option values are opaque (no validation in the code either); aliasing of mutable values is checked by the harness only.",
    "Lean 4 proof over a dict-merge model + generated default tables; exhaustive differential correspondence", "8/C14")
