# property table for tools/make_manifest.py (exec'd there): chk(id, level text, level note, technique, design ref)
chk("C01",
    "Lean theorems (any topology / size / numbering): the assembled Newton system's node rows are the nodal mass balance, "
    "a full step leaves zero imbalance at every non-slack node, the slack mass closes the balance at pressure-fixing nodes, "
    "global feed-in = consumption - injection, pipe sections carry equal flow; the generated kernels provably write the "
    "coefficients these theorems assume. The assembly model is tied to build_system_matrix by exact dense-matrix "
    "correspondence, the kernels by bitwise self-check; an oracle sums reported flows per junction on generated nets.",
    "Linear solve (spsolve) and result write-back are exercised by the search, not proved.",
    "Lean 4 proof over translated kernels + assembly model; exact correspondence; nodal-balance oracle search", "8/C01")
chk("C02",
    "Lean theorems over the kernels regenerated from the current source: the liquid residual equals pressure difference + lift + "
    "the documented Darcy-Weisbach/hydrostatic/lumped loss (all parameter values), the gas residual equals the integrated "
    "real-gas law of the documentation, mean-pressure formula and bounds, Reynolds number, laminar and Nikuradse factors "
    "(liquid and gas forms), friction-loss column; over the translated gas post-processing (result_extraction.py) each end's norm "
    "factor is p_N T K/(T_N p) with that end's own pressure and temperature for either flow direction. Constants come from constants.py via the translator. The oracle re-evaluates "
    "the law, v, Re, lambda and norm factors from res_* tables on generated nets for all three friction models.",
    "Colebrook and Swamee-Jain factors are checked by the oracle only (implicit / not in the documentation as a formula); "
    "the liquid velocity line and the scatter into res_* rows are exercised by the oracle, not translated.",
    "Lean 4 proof over translated kernels; bitwise translator self-check; law-residual oracle search", "8/C02")
chk("C07",
    "Lean theorems, for all real inputs, that each numpy kernel equals its numba twin (liquid and gas residuals/derivatives, "
    "Nikuradse factors, mean pressure, derived values, thermal node and branch terms, flow tests, gas post-processing: absolute / mean "
    "pressures, norm factors, gas velocities of get_branch_results_gas vs its numba twin), with the two genuine twin "
    "differences stated exactly and proved confined to zero-flow Jacobian entries; both twins are regenerated from source on "
    "every run and compared bitwise / within 4 ulp with the python functions. The assembly model covers the matrix-update path. "
    "Oracle: engine pairs, update option (hydraulic and thermal), reuse_internal_data with edited loads.",
    "Float-level agreement of the engines is measured, not proved. Known finding: update option + active pressure controller.",
    "Lean 4 proof of twin equality over translated kernels; bitwise self-check; differential engine/option runs", "8/C07")
chk("C14",
    "Lean theorems over the option-resolution model for all layers (arbitrary dicts): plain precedence call > user > default for "
    "every key outside the documented couplings (unknown keys carried, absent keys stay absent), the exact iter/stage-limit "
    "precedence chain, reuse/update coupling, deprecated mode mapping, numba fallback, fluid entry, dropped plotting keys, and "
    "documented = actual defaults (both tables regenerated from source, decided by kernel evaluation). The hand-written model is "
    "tied to init_options by an exhaustive correspondence: every option key x presence pattern, all 576 iter/stage-key patterns "
    "of both layers, all coupling patterns, numba installed or not; input layers are checked for mutation.",
    "Option values are opaque (no validation in the code either); aliasing of mutable values is checked by the harness only.",
    "Lean 4 proof over a dict-merge model + generated default tables; exhaustive differential correspondence", "8/C14")
chk("C05",
    "Lean theorems over the Newton-driver model for every observation stream of every length (any errors, residuals, NaNs): "
    "iteration budget respected; converged flag => last iteration's errors and residual are numbers within the tolerances in "
    "force and (automatic damping) the damping factor selected afterwards is 1; NaN never converges; damping factor stays in "
    "{1, 0.1, 0.01}; run level: pipeflow returns iff every stage converged, and after any history a failed run leaves the net "
    "not converged with no result numbers. The full clause 'the accepted step was undamped' is proved FALSE of the code by two "
    "kernel-checked witnesses that are replayed on the real newton_raphson (known finding). The model is tied to the code by "
    "driving the real newton_raphson with 13,850+ scripted iteration functions and by real success/failure histories; which option "
    "bounds which solver variable in each stage is generated from hydraulics/heat_transfer/bidirectional and proved to pair every "
    "variable with the tolerance of its own dimension.",
    "Stage outcomes (what the linear solve produces) are inputs of the model; finiteness of supplied elements is checked by the "
    "search only.",
    "Lean 4 proof over a state-machine model of the Newton driver; scripted differential correspondence; history search", "8/C05")
chk("C04",
    "Lean theorems for every node/branch count, topology and flag pattern: the executable supply search marks a node iff it is "
    "reachable from an in-service pressure-fixing node along in-service branches with directed branches only forwards "
    "(frontier expansion = reflexive-transitive reachability, by a cardinality argument); branch rule (ordinary: in service and "
    "from-node supplied; flow/return connector: both ends); calculated branches have two supplied ends; no in-service slack => "
    "nothing supplied; the supplied set depends only on the supply relation; cumsum renumbering is order preserving, injective "
    "and in range. Model tied to check_connectivity (scipy BFS included) over all 2^10 flag patterns of 3 topologies + random "
    "graphs. Oracle: NaN pattern of every res table vs an independent user-level reachability, results vs the pruned net, "
    "no supply => PipeflowNotConverged.",
    "reduce_pit / copy-back index arithmetic is covered end-to-end by the pruned-net oracle, not proved.",
    "Lean 4 proof (BFS = reachability, renumbering) over an executable model; exhaustive-pattern correspondence; pruned-net search",
    "8/C04")
chk("C03",
    "Lean theorems: in the assembled Newton system the rows of pressure-fixing nodes, of paired pressure-controlled nodes and of "
    "prescribed-flow branches are identities with zero right-hand side, so the prescribed pressure / controlled pressure / set "
    "mass flow written at initialisation survives every iteration for any step width (any topology, any controller order: the "
    "k-th-branch/k-th-node pairing is total when the counts agree); folding set_fixed_node_entries over any grouping of "
    "fixing elements yields their arithmetic mean; a vanishing residual of the generated liquid and gas kernels with the "
    "compressor lift rule gives p_to,abs = ratio * p_from,abs (+ hydrostatic term), zero lift for reverse flow. Ties: exact "
    "assembly correspondence, set_fixed_node_entries correspondence. Oracle: every set-point clause on res_* tables.",
    "Pump curve and circulation-pump lift are checked by the oracle only; the compressor lift, flow-controller, pressure-controller "
    "and heat-consumer rows are translated from the component classes (bitwise self-check) and proved to be what the invariants assume.",
    "Lean 4 proof over assembly model + generated kernels; correspondence; set-point oracle search", "8/C03")
chk("C06",
    "Lean theorems over the grouped-sum / lookup model: the bucket (numba) implementation equals the specification 'sum of all "
    "values carrying the key' for every input; per-key sums and reported keys are invariant under any row permutation; under an "
    "injective relabelling the sum for sigma(k) is the former sum for k; index lookup commutes with injective relabelling and "
    "returns the row carrying the label. The numpy variant (stable sort + running sum + run-end differences) is proved equal to the "
    "specification for every input as well (hence equal to the numba variant). All three are tied to _sum_by_group_np/_numba by exact "
    "integer correspondence (labels to 5e6, around the 1e5 / 2 len / 10 len switch). Oracle: every generated net vs. its relabelled, "
    "row-permuted, re-ordered variant (several pipe valves, per-junction temperatures).",
    "the pit builders' equivariance is covered by the variant oracle only.",
    "Lean 4 proof over grouped-sum/lookup model; exact correspondence; metamorphic relabel/permute search", "8/C06")
chk("C08",
    "Lean theorems: on any meshed topology two steady states of the same network with strictly monotone branch laws have identical "
    "flows (Tellegen argument over the incidence sums) and identical pressures at every node connected to a pressure-fixing node; "
    "the liquid friction law of the kernels generated from the current source, with the Nikuradse factor, is a*m + b*m|m| with "
    "explicit coefficients that are positive / non-negative for physical parameters, and every such law is strictly monotone. "
    "Together with C05 (an accepted run is an approximate solution of that system) this makes the result independent of start "
    "values and damping. Oracle: each generated net solved twice with perturbed start values and independently drawn damping.",
    "Monotonicity for Colebrook / Swamee-Jain and for gases (pressure dependent compressibility) is a named hypothesis "
    "(theorems carry it explicitly); the thermal stage is covered by the oracle.",
    "Lean 4 proof (uniqueness of the hydraulic solution) over generated kernels; start-value / damping differential search", "8/C08")
chk("C09",
    "Lean theorems over kernels regenerated from the current source: the mean branch density (get_branch_real_density) does not "
    "depend on the declared direction; reversing a passive branch negates the liquid and gas "
    "residuals (flow sign flips, pressures unchanged); n sections of a liquid pipe (length and lumped coefficient divided by n) lose "
    "exactly what the one-section pipe loses; liquid residual and Jacobian are invariant under a common pressure shift; loads "
    "aggregate per junction and a source is a negative sink; disabled = absent is C04's theorem. Oracle: every generated net vs. one "
    "rewrite of itself (reverse subset, split into series pipes, one section, aggregate loads, source as sink, drop disabled, "
    "shift pressures), hydraulic and thermal.",
    "Series-split equivalence (n pipes with intermediate junctions) and the thermal side of the rewrites are covered by the oracle.",
    "Lean 4 proof of symmetry/invariance laws over translated kernels; metamorphic rewrite search", "8/C09")
chk("C10",
    "Lean theorems: the thermal branch residual generated from the current source vanishes iff the outlet temperature follows the "
    "documented exponential cooling law (flowing branch) resp. equals the ambient option temperature (no flow); the node-equation "
    "coefficients are w=c_p|m| with residual w(T_out - T_node); for the assembled thermal system (exact correspondence with "
    "build_system_matrix(heat_mode=True)) a full Newton step leaves sum_b w_b (T_out,b - T_i) = 0 at every non-feed node of any "
    "topology (energy-conserving mixing); feed-node rows are identities (imposed temperatures), with the k-th/k-th pairing proved "
    "to be the identity when feed-in and T-slack nodes coincide; maximum principle (upper and lower bound) on any flow-oriented "
    "graph whose nodes are all downstream of a feed. Oracle: cooling law per section, mean-c_p nodal energy balance, feeds, bounds.",
    "The heat-capacity arithmetic of calculate_derivatives_thermal (mean c_p) is checked by the oracle (after the fix), not translated.",
    "Lean 4 proof over translated thermal kernels + thermal assembly model; correspondence; thermal oracle search", "8/C10")
chk("C11",
    "Lean theorems: for a flowing lumped heat element the generated thermal residual vanishes iff Q_ext = |m| c_p (T_in - T_out); "
    "with the duty the code derives for prescribed mass flow and temperature drop the outlet drops by exactly that difference; on "
    "any network conserving mass at every node the enthalpy changes of all branches sum to zero, so the circulation pump's "
    "mdot c_p dT equals what all other branches take out (incidence algebra, any loop topology). Oracle: duty identities, "
    "set-points (where the property demands them), deltat report and loop closure within the c_p discretisation bound, all five "
    "consumer modes, sequential and bidirectional.",
    "The HeatConsumer adaption_* class methods are translated per row (duty per mode, mass flow of QE_DT, identity rows) and tied "
    "bitwise to the real methods; mode classification (create_component_array) is exercised by the oracle only; known finding: "
    "QE_TR/QE_DT consumers in sequential mode report a duty inconsistent with their own temperatures.",
    "Lean 4 proof over translated thermal kernel + incidence algebra; duty / closure oracle search", "8/C11")
chk("C12",
    "Lean theorems: (1) no_stale_read - over the access sequence of pipeflow(net, ...) that a static scanner regenerates from the "
    "current source on every run (calls inlined through pipeflow.py, pipeflow_setup.py, result_extraction.py, "
    "build_system_matrix.py, derivative_calculation.py; branches and loops scoped; function-valued parameters and constant "
    "arguments resolved) every read / in-place update of an internal net key is preceded on every path by a (re)binding of that "
    "key within the same call, decided by kernel evaluation; (2) purity - any step sequence of that shape ends in a state that "
    "does not depend on the initial values of the internal keys. A dynamic trace of real runs cross-checks the scanner. Search: "
    "call histories with all modes, engines, failing runs and undone edits; snapshots of all user entries; final run bit-identical "
    "to a fresh copy and to a repetition; heat-after-hydraulics equals sequential.",
    "The scanner folds the documented opt-ins transient=False and reuse_internal_data=False. Aliasing of numpy views (input "
    "mutation) and bit-repeatability are runtime behaviour: search only.",
    "Lean 4 proof (kernel-decided dataflow check over a source-generated event list + purity lemma); history search", "8/C12")
chk("C13",
    "Lean theorems over the time-series loop model, for every list of time steps (any order, subset, repetition) and any "
    "profile: if the controllers overwrite their controlled cells (hypothesis, library behaviour), the log of every step equals "
    "the stand-alone run on the original net carrying that step's row, independent of all preceding steps; a diverged step is "
    "logged as diverged exactly when the stand-alone run diverges and does not alter other steps (continue_on_divergence); "
    "without it the log is the prefix up to the first divergence; the plain loops register PipeflowNotConverged as their "
    "divergence error and the multi-energy loop takes each member net's error classes from pandapipes' own prepare_run_ctrl "
    "(facts regenerated from the source, decided by evaluation). Search: real run_timeseries with ConstControl/OutputWriter vs "
    "exact stand-alone runs on fresh copies, incl. infeasible steps and random step orders.",
    "pandapower's control / time-series machinery is a parameter of the model with a stated law; multi-energy time series are "
    "exercised under C20.",
    "Lean 4 proof by induction over time-step lists + source-generated wiring facts; differential time-series search", "8/C13")
chk("C19",
    "Lean theorems: every tabulated point of every interpolated property of every library fluid is reproduced exactly and all "
    "tables are strictly increasing (kernel evaluation over tables regenerated from properties/*/*.txt as exact rationals); "
    "segment laws of the interpolation (first segment incl. extrapolation below, skip rule, two-knot tables, linearity of a "
    "segment); stored compressibility derivative = slope of the compressibility law for all library fluids except hydrogen, with "
    "a kernel-checked witness of that data inconsistency; integrals of interpolated / constant / linear properties are "
    "antisymmetric, additive (constant, linear) and consistent with the property values; mass fractions sum to one; weighted "
    "mixtures stay within component bounds; pump lift is non-negative, zero for reverse flow and follows the regression "
    "polynomial. Ties: model vs real Fluid / PumpStdType on knots, random and out-of-range queries. Search: the property-level "
    "oracle on the real classes incl. scalar/array/Series shapes and std types reaching net.pipe.",
    "Polynomial and Sutherland property classes and numpy.polyfit (pump regression at load time) are exercised, not modelled.",
    "Lean 4 proof incl. kernel-decided facts over source-generated rational tables; correspondence; library oracle", "8/C19")
chk("C16",
    "Lean theorems over flow words regenerated from create.py on every run (ordered add_new_component / check / row-write "
    "primitives of all 28 create functions, calls to other create functions inlined): in every create function all checks "
    "precede the first row write (decided), every function checks and writes; for every flow word with that shape a call whose "
    "k-th check fails has written no row, whichever k (induction over the word) - hence no create function leaves a row behind a "
    "rejected call; the full 'net unchanged' clause is false: kernel-checked witness that add_new_component precedes the checks "
    "(known finding, replayed on the real code); every default stated in a create docstring equals the signature default "
    "(decided over the generated table). Fault enumeration on the real functions: every create function x invalid-argument kind "
    "x reference position x sector, complete net snapshots; bulk vs one-by-one; std type vs parameters.",
    "The flow words flatten branches / loops in source order; value semantics of the written rows are covered by the enumeration.",
    "Lean 4 proof over source-generated flow words (kernel-decided + induction); exhaustive fault enumeration on create_*", "8/C16")
chk("C17",
    "Lean theorems over the reference-skeleton specification of the restructuring tools (elements = table, index, junction "
    "references incl. controlled junctions, optional pipe reference of junction-pipe valves): reindex_junctions, reindex_pipes, "
    "drop_pipes (with attached valves), drop_junctions (cascade), fuse_junctions each map a net without dangling references to a "
    "net without dangling references, hence every admissible finite operation sequence does (induction over histories); "
    "relabelling followed by its inverse is the identity (labels only). The specification is tied to the real toolbox functions "
    "by correspondence on random operation sequences. Search: nets with junction-pipe valves, remote controlled junctions and "
    "pipe labels coinciding with junction labels: dangling-reference check after every operation, results before vs after "
    "relabelling, select_subnet of the supplied region.",
    "select_subnet and the create_continuous_* index functions are covered by the search (through reindex) only; table contents "
    "other than references are outside the skeleton.",
    "Lean 4 proof (invariant by induction over operation histories) over a reference-skeleton model; op-sequence correspondence; "
    "search", "8/C17")
chk("C18",
    "Lean theorems over the edge-list model of create_nxgraph: a valve attached to a pipe contributes no edge; a closed one "
    "removes its pipe's edge when valve status is respected; with unique element identities the edge list has no duplicates and "
    "every in-service junction-to-junction element between in-service junctions appears as exactly one edge between its two "
    "junctions; for nets whose branches are undirected and connecting, the solver's supply search (C04's model) marks a junction "
    "iff it lies in the same connected component (equivalence closure) as an in-service pressure-fixing junction - i.e. what "
    "unsupplied_junctions computes. The model is tied to the real create_nxgraph / unsupplied_junctions on the edge multiset for "
    "all four respect-status combinations. Search: edge multiplicity, phantom nodes, unsupplied vs NaN pattern, distances vs an "
    "independent Dijkstra.",
    "networkx is library code (components / Dijkstra as parameters validated by correspondence). Known finding: graph and solver "
    "differ for heat consumers, active flow controllers, pressure controllers and circulation-pump supply.",
    "Lean 4 proof over an edge-list model + C04's connectivity model; correspondence; graph-vs-solver search", "8/C18")
chk("C20",
    "Lean theorems over the controller arithmetic regenerated from multinet_control.py on every run (conversion factors and the "
    "control_step expressions of P2G, G2P, gas-to-gas): MW->kg/s and kg/s->MW factors are inverse, power-to-gas followed by "
    "gas-to-power returns the product of the efficiencies, the written P2G value is scaled load x 1000/(hhv*3600) x efficiency, "
    "G2P's gas-led and power-led modes are inverse, gas-to-gas conserves energy up to the efficiency (mdot_out*hhv2 = "
    "eta*mdot_in*hhv1); the multinet convergence flag is the conjunction of the member flags. Tie: generated arithmetic at Float "
    "vs the real controller objects' control_step, bitwise. Search: multinets (power + two gas nets) with 1-3 controllers, scalar "
    "and vectorised indices, scalings: written cells, member nets bit-identical to stand-alone runs, convergence reporting with an "
    "infeasible member.",
    "pandapower's power flow / control loop and controller ordering are library code; multi-energy time series reuse C13's model.",
    "Lean 4 proof over translated controller arithmetic; bitwise self-check; coupled-run search", "8/C20")
chk("C15",
    "Lean theorems over the model of the pandapipes-owned part of the codec: every fluid property class (interpolated, constant, "
    "linear, polynomial, Sutherland) round-trips through to_dict / from_dict with all the data it consists of; the whole net "
    "document (name, sector, user options, component list, fluid with all properties, all tables) round-trips for every net, given "
    "the round-trip law of the table codec (pandas / pandapower, a parameter); internal (underscore) entries are never written. "
    "Tie: stored fields per property class vs the real to_dict(), real from_dict(to_dict()) behaviour, new classes flagged. Search: "
    "generated nets with every component, results, custom columns / fluids of every class / pump types / user options / "
    "controllers / NaN-None cells through to_json (string, file, encrypted) and to_pickle: tables with dtypes and indices, fluid "
    "values, std types, component list, sector, name, user options, re-run.",
    "pandas / pandapower JSON machinery is library code (15 decimal places on the JSON paths; exact on pickle). Known finding: inf "
    "in mass_storage.max_m_stored_kg becomes NaN on the JSON paths. Multi-energy nets are exercised under C20.",
    "Lean 4 proof of codec round-trip over a model of the pandapipes hooks; field-level correspondence; round-trip search", "8/C15")
