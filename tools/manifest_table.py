# property table for tools/make_manifest.py (exec'd there): chk(id, level text, level note, technique, design ref)
chk("C01",
    "Lean theorems (any topology / size / numbering): the assembled Newton system's node rows are the nodal mass balance, "
    "a full step leaves zero imbalance at every non-slack node, the slack mass closes the balance at pressure-fixing nodes, "
    "global feed-in = consumption - injection, pipe sections carry equal flow; the generated kernels provably write the "
    "coefficients these theorems assume. The assembly model is tied to build_system_matrix by exact dense-matrix "
    "correspondence, the kernels by bitwise self-check; an oracle sums reported flows per junction on generated nets.",
    "Linear solve (spsolve) and result write-back are exercised by the search, not proved.",
    "Lean 4 proof over translated kernels + assembly model; exact correspondence; nodal-balance oracle search", "8/C01")
