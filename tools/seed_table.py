#!/usr/bin/env python3
"""print the seeded-change catch matrix (markdown) from seeded/*/meta.json"""
import json, os
root = "/verif/seeded"
print("| seed | property | change (one line) | needs | property's quick check | how |")
print("|---|---|---|---|---|---|")
for nm in sorted(os.listdir(root)):
    p = os.path.join(root, nm, "meta.json")
    if not os.path.exists(p):
        continue
    m = json.load(open(p))
    a = m.get("agent_description", {})
    cq = m.get("check_quick", {})
    run = m.get("checks_run", {}).get(m["property"], {})
    how = ", ".join(run.get("kinds", [])) or ("-" if cq.get("exit") == 0 else "failing-input")
    fps = ", ".join(sorted(set(f for f in run.get("fingerprints", []) if f)))[:90]
    others = [c for c, r in m.get("checks_run", {}).items() if c != m["property"] and r.get("exit") == 1]
    verdict = "caught (exit 1)" if cq.get("exit") == 1 else ("MISSED" if cq.get("exit") == 0 else "exit %s" % cq.get("exit"))
    if others:
        verdict += "; also " + ",".join(sorted(others))
    print("| %s | %s | %s | %s | %s | %s %s |" % (nm, m["property"], (a.get("summary", "") or "")[:160].replace("|", "/"),
                                           (a.get("needs_to_manifest", "") or "")[:120].replace("|", "/"), verdict, how, ("(" + fps + ")") if fps else ""))
