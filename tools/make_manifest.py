#!/usr/bin/env python3
"""Writes /verif/MANIFEST.json from the table below (keeps it schema-valid by construction)."""
import json
import os

VERIF = os.path.dirname(os.path.dirname(os.path.abspath(__file__)))

CHECKS = {}   # id -> (level text, note, technique, design_ref)
NOT_APPLICABLE = {}


def chk(pid, text, note, technique, ref):
    CHECKS[pid] = (text, note, technique, ref)


exec(open(os.path.join(VERIF, "tools", "manifest_table.py")).read())

for line in open(os.path.join(VERIF, "properties.jsonl")):
    pid = json.loads(line)["id"]
    if pid not in CHECKS and pid not in NOT_APPLICABLE:
        NOT_APPLICABLE[pid] = "check still under construction in this round (model and theorems not yet committed); not a claim that the technique cannot apply"

BASE_NOTE = ("Trusted: Lean 4.33 kernel; axioms propext/Classical.choice/Quot.sound only (audited with #print axioms on every run); "
             "the python->Lean translator and the correspondence harness (both cross-checked against the real code on every run). "
             "Modelled, not verified: IEEE rounding, scipy/numpy/numba/pandas/pandapower/networkx internals. ")

m = {
    "version": 1,
    "setup_cmd": "./setup.sh",
    "hooks": {"guard": "PANDAPIPES_VERIF", "enable": "no source hooks: checks wrap module attributes of the installed "
              "(editable) package from the harness process; PANDAPIPES_VERIF=1 is exported by ./check for symmetry only",
              "baseline_off_cmd": "cd /repo && /venv/bin/python -m pytest -ra -q -p no:cacheprovider --timeout=900 "
              "--continue-on-collection-errors",
              "source_commits": [], "add_only": True},
    "engines": [{"name": "lean-proof+tie", "path": "check",
                 "serves_properties": sorted(CHECKS),
                 "kind_free_text": "Lean 4 theorems over a model that is regenerated from /repo (translator) or tied by a "
                                   "differential correspondence check, plus an oracle search on the real implementation for "
                                   "concrete failing inputs"}],
    "checks": [],
    "not_applicable": [{"property_id": k, "reason": v} for k, v in sorted(NOT_APPLICABLE.items())],
    "notes": "Every check: regenerate lean/PPV/Gen from /repo's working tree -> lake build of the property's theorems and the model "
             "driver -> axiom audit -> tie (bitwise kernel self-check / exact correspondence) -> oracle search on the real code -> "
             "verdict per DESIGN.md section 6. Exit 2 = infrastructure problem, never a verdict.",
}
for pid in sorted(CHECKS):
    text, note, technique, ref = CHECKS[pid]
    m["checks"].append({
        "property_id": pid,
        "quick_cmd": "./check %s --tier quick" % pid,
        "thorough_cmd": "./check %s --tier thorough" % pid,
        "evidence_file": "evidence/%s.json" % pid,
        "replay_cmd_template": "./check %s --replay {path}" % pid,
        "engine": "lean-proof+tie",
        "level_claimed": {"category": "proof", "text": text, "design_ref": ref},
        "level_note": BASE_NOTE + note,
        "technique": technique,
    })
with open(os.path.join(VERIF, "MANIFEST.json"), "w") as f:
    json.dump(m, f, indent=1)
print("wrote MANIFEST.json with %d checks, %d not_applicable" % (len(m["checks"]), len(m["not_applicable"])))
