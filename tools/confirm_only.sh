#!/bin/bash
# confirm_only.sh <ID> -- steps 1-3 of confirm_seed.sh (patch applies to the scratch worktree's HEAD, demo 0 / 1, test suite with
# the change); touches only the scratch worktree /tmp/mut_<ID>, so several can run side by side.  Prints one summary line.
ID=$1; WT=/tmp/mut_$ID; OUT=/tmp/mut_out/$ID
cd $WT || exit 2
git checkout -q -- .
git apply --check $OUT/patch.diff || { echo "$ID patch does not apply"; exit 2; }
PYTHONPATH=$WT/src timeout 600 /venv/bin/python $OUT/demo.py > $OUT/demo_clean.log 2>&1; RC_CLEAN=$?
git apply $OUT/patch.diff
PYTHONPATH=$WT/src timeout 600 /venv/bin/python $OUT/demo.py > $OUT/demo_mut.log 2>&1; RC_MUT=$?
TESTS=$(PYTHONPATH=$WT/src timeout 2400 /venv/bin/python -m pytest -q -p no:cacheprovider -n 3 src/pandapipes/test 2>&1 | tail -1)
git checkout -q -- .
echo "$ID demo clean=$RC_CLEAN mutated=$RC_MUT tests: $TESTS" | tee $OUT/confirm_only.txt
