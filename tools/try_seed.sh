#!/bin/bash
# try_seed.sh <seed-name> [check-id] [extra ./check args] -- apply a stored seeded change to /repo, run the check, undo
NAME=$1; PROP=${2:-${NAME%%_*}}; shift; shift
cd /verif
[ -z "$(git -C /repo status --short)" ] || { echo "/repo not clean"; exit 2; }
git -C /repo apply /verif/seeded/$NAME/patch.diff || exit 2
timeout 3000 ./check $PROP "$@" 2>&1 | grep -E "^(VIOLATION|check )" | cut -c1-260 | head -${LINES_MAX:-6}
git -C /repo checkout -- .
[ -z "$(git -C /repo status --short)" ] || echo "WARNING: /repo not clean after undo"
