#!/bin/bash
# confirm_seed.sh <ID> [name]  -- confirm a sub-agent's seeded change in its scratch worktree, store it under
# /verif/seeded/<name>/, then run the property's quick check against it in /repo and undo it.
#   1. the patch applies to a clean checkout of /repo's HEAD (scratch worktree /tmp/mut_<ID>)
#   2. demo.py exits 1 with the change and 0 without it
#   3. the pinned test suite passes with the change   (skipped with SKIP_TESTS=1)
#   4. ./check <prop> with the patch applied to /repo  -> records exit code and verdict lines
set -u
ID=$1; NAME=${2:-$ID}; PROP=${ID%%_*}
WT=/tmp/mut_$ID; OUT=/tmp/mut_out/$ID; DST=/verif/seeded/$NAME
[ -f $OUT/patch.diff ] || { echo "no patch in $OUT"; exit 2; }
cd $WT || exit 2
git checkout -q -- .
git apply --check $OUT/patch.diff || { echo "patch does not apply to HEAD"; exit 2; }
PYTHONPATH=$WT/src timeout 600 /venv/bin/python $OUT/demo.py > $OUT/demo_clean.log 2>&1; RC_CLEAN=$?
git apply $OUT/patch.diff
PYTHONPATH=$WT/src timeout 600 /venv/bin/python $OUT/demo.py > $OUT/demo_mut.log 2>&1; RC_MUT=$?
echo "demo: clean=$RC_CLEAN mutated=$RC_MUT"
TESTS="skipped"
[ -f $OUT/confirm_only.txt ] && TESTS="$(sed 's/.*tests: //' $OUT/confirm_only.txt) (tools/confirm_only.sh, -n 3)"
if [ "${SKIP_TESTS:-0}" != 1 ]; then
  TESTS=$(cd $WT && PYTHONPATH=$WT/src timeout 2400 /venv/bin/python -m pytest -q -p no:cacheprovider -n 8 src/pandapipes/test 2>&1 | tail -1)
  echo "tests: $TESTS"
fi
git checkout -q -- .
mkdir -p $DST
cp $OUT/patch.diff $DST/patch.diff; cp $OUT/demo.py $DST/demo.py
[ -f $OUT/meta.json ] && cp $OUT/meta.json $DST/agent_meta.json
# run the check against it
cd /verif
git -C /repo apply $DST/patch.diff || { echo "cannot apply to /repo"; exit 2; }
timeout 3000 ./check $PROP > $DST/check_quick.log 2>&1; RC_CHECK=$?
git -C /repo checkout -- .
git -C /repo status --short | head -3
grep -E "^(VIOLATION|KNOWN-FINDING|check )" $DST/check_quick.log | head -12
python3 - "$DST" "$ID" "$PROP" "$RC_CLEAN" "$RC_MUT" "$TESTS" "$RC_CHECK" <<'E'
import json, sys, os, re
dst, id_, prop, rc_clean, rc_mut, tests, rc_check = sys.argv[1:8]
agent = {}
p = os.path.join(dst, "agent_meta.json")
if os.path.exists(p):
    try: agent = json.load(open(p))
    except Exception as e: agent = {"unparsed": str(e)}
log = open(os.path.join(dst, "check_quick.log")).read()
meta = {"id": id_, "property": prop,
        "confirmed": {"demo_exit_clean": int(rc_clean), "demo_exit_mutated": int(rc_mut), "test_suite_with_change": tests,
                      "command_demo": "PYTHONPATH=<tree>/src /venv/bin/python demo.py",
                      "command_tests": "/venv/bin/python -m pytest -q -p no:cacheprovider -n 8 src/pandapipes/test"},
        "check_quick": {"exit": int(rc_check), "violation_lines": re.findall(r"^VIOLATION.*$", log, re.M)[:5]},
        "agent_description": agent}
json.dump(meta, open(os.path.join(dst, "meta.json"), "w"), indent=1)
os.remove(p) if os.path.exists(p) else None
E
echo "check exit=$RC_CHECK"
