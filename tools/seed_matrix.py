#!/venv/bin/python
"""seed_matrix.py [seed-names...] [--checks C01,C02]  -- apply every stored seeded change to /repo in turn, run the
property's quick check (or the given checks), undo, and record the outcome in seeded/<name>/meta.json and seeded/MATRIX.md"""
import json, os, re, subprocess, sys, time

ROOT = "/verif"
args = [a for a in sys.argv[1:] if not a.startswith("--")]
checks_opt = next((a.split("=", 1)[1].split(",") for a in sys.argv[1:] if a.startswith("--checks=")), None)
names = args or sorted(d for d in os.listdir(ROOT + "/seeded") if os.path.isdir(ROOT + "/seeded/" + d))
rows = []
for nm in names:
    d = "%s/seeded/%s" % (ROOT, nm)
    meta = json.load(open(d + "/meta.json"))
    checks = checks_opt or [meta["property"]]
    if subprocess.run(["git", "-C", "/repo", "status", "--short"], capture_output=True, text=True).stdout.strip():
        sys.exit("/repo not clean")
    subprocess.run(["git", "-C", "/repo", "apply", d + "/patch.diff"], check=True)
    try:
        for c in checks:
            t0 = time.time()
            r = subprocess.run([ROOT + "/check", c], capture_output=True, text=True, cwd=ROOT)
            viol = re.findall(r"^VIOLATION.*$", r.stdout, re.M)
            summ = (re.findall(r"^check .*$", r.stdout, re.M) or [""])[-1]
            kinds = set()
            for v in viol:
                kinds.add("no-failing-input-found" if v.endswith("no-failing-input-found") else "failing-input")
            fp = []
            for v in viol[:3]:
                m = re.search(r"replay=(\S+)", v)
                if m and os.path.exists(ROOT + "/" + m.group(1)):
                    try:
                        fp.append(json.load(open(ROOT + "/" + m.group(1))).get("fingerprint"))
                    except Exception:
                        pass
            res = {"check": c, "exit": r.returncode, "violations": len(viol), "kinds": sorted(kinds), "fingerprints": fp,
                   "summary": summ, "seconds": round(time.time() - t0, 1)}
            meta.setdefault("checks_run", {})[c] = res
            if c == meta["property"]:
                meta["check_quick"] = {"exit": r.returncode, "violation_lines": viol[:5]}
            rows.append((nm, c, res))
            print(nm, c, "exit", r.returncode, summ[-110:], flush=True)
    finally:
        subprocess.run(["git", "-C", "/repo", "checkout", "--", "."], check=True)
    json.dump(meta, open(d + "/meta.json", "w"), indent=1)
