"""
rwsets -- static read/write sequence of the net's internal keys along `pandapipes.pipeflow(net, ...)`.

The AST of pipeflow.py and the modules it calls into is walked in source order, inlining calls to functions
defined in those modules.  Every access to `net["_x"]`, `net._x`, `net.converged`, `"_x" in net`, `net.pop("_x")`
and the accessor helpers (`get_lookup`, `get_net_option(s)`, `set_net_option`, `write_internal_results`,
`create_internal_results`) becomes one event:

    R key   read (needs the key to exist and to be current)
    W key   unconditional (re)binding of the key
    C key   conditional (re)binding (inside a branch / loop whose test is not statically known)
    U key   in-place update (needs the key to exist)
    T key   existence test (`"_x" in net`)
    D key   deletion (`net.pop`)

Branch tests that only depend on the options `transient` (folded to False: the experimental transient mode is
outside every property's quantifier) are folded.  The event list is emitted as `Gen/RWSets.lean`; the theorem
`no_stale_read` (Props/C12.lean) is decided over it by kernel evaluation on every run.
"""
import ast
import os

import kpy2lean

MODULES = ["pipeflow.py", "pf/pipeflow_setup.py", "pf/result_extraction.py", "pf/build_system_matrix.py",
           "pf/derivative_calculation.py"]
KEYS = {"_options", "_lookups", "_pit", "_old_pit", "_active_pit", "_active_old_pit", "_internal_data",
        "_internal_results", "converged", "user_pf_options"}
HELPERS = {
    "get_lookup": [("R", "_lookups")], "get_net_option": [("R", "_options")], "get_net_options": [("R", "_options")],
    "set_net_option": [("U", "_options")], "get_fluid": [],
}
# analysis configuration: the experimental transient mode is outside every property; reuse_internal_data is the
# documented, explicit opt-in to carry state between calls (C07 covers it), so purity is analysed for its default
FOLD_NAMES = ("transient", "reuse_internal_data")
FOLD_OPTIONS = {}


def load_fold_options():
    """the opt-in options are folded to the value the *current* `default_options` gives them: purity is claimed for the
    defaults, so a default that silently turns the opt-in on puts the state-carrying path back into the analysed flow"""
    tree, path = kpy2lean.read_module("pf/pipeflow_setup.py")
    FOLD_OPTIONS.clear()
    for st in tree.body:
        if isinstance(st, ast.Assign) and isinstance(st.targets[0], ast.Name) and st.targets[0].id == "default_options" \
                and isinstance(st.value, ast.Dict):
            for k, v in zip(st.value.keys, st.value.values):
                if isinstance(k, ast.Constant) and k.value in FOLD_NAMES and isinstance(v, ast.Constant) and isinstance(v.value, bool):
                    FOLD_OPTIONS[k.value] = v.value
    missing = [k for k in FOLD_NAMES if k not in FOLD_OPTIONS]
    if missing:
        raise kpy2lean.TranslateError("%s: default_options gives no boolean default for %s" % (path, missing))
    if FOLD_OPTIONS["transient"] is not False:
        raise kpy2lean.TranslateError("%s: the transient mode is on by default; the purity analysis does not cover it" % path)


class Scanner:
    def __init__(self):
        load_fold_options()
        self.funcs = {}
        for rel in MODULES:
            tree, path = kpy2lean.read_module(rel)
            for n in tree.body:
                if isinstance(n, ast.FunctionDef):
                    self.funcs.setdefault(n.name, (n, path))
        self.events = []
        self.stack = []
        self.bind = [{}]
        self.env = [{}]

    def emit(self, kind, key, cond, node, fn):
        if key in KEYS:
            self.events.append((kind, key, fn, getattr(node, "lineno", 0)))

    def mark(self, kind, node, fn):
        """structure markers: B (branch begins) E (else) X (branch ends) L (loop begins) M (loop ends)"""
        self.events.append((kind, "", fn, getattr(node, "lineno", 0)))

    # --- expression level --------------------------------------------------------------------------
    def net_key(self, node):
        """`net["_x"]` or `net._x` -> key"""
        if isinstance(node, ast.Subscript) and isinstance(node.value, ast.Name) and node.value.id == "net" \
                and isinstance(node.slice, ast.Constant) and isinstance(node.slice.value, str):
            return node.slice.value
        if isinstance(node, ast.Attribute) and isinstance(node.value, ast.Name) and node.value.id == "net":
            return node.attr
        return None

    def fold(self, test):
        """statically known truth value of a branch test, or None"""
        if isinstance(test, ast.UnaryOp) and isinstance(test.op, ast.Not):
            v = self.fold(test.operand)
            return None if v is None else (not v)
        if isinstance(test, ast.BoolOp):
            vals = [self.fold(v) for v in test.values]
            if isinstance(test.op, ast.Or):
                if any(v is True for v in vals):
                    return True
                return False if all(v is False for v in vals) else None
            if any(v is False for v in vals):
                return False
            return True if all(v is True for v in vals) else None
        if isinstance(test, ast.Call) and isinstance(test.func, ast.Name) and test.func.id == "get_net_option" \
                and len(test.args) == 2 and isinstance(test.args[1], ast.Constant) and test.args[1].value in FOLD_OPTIONS:
            return FOLD_OPTIONS[test.args[1].value]
        if isinstance(test, ast.Name) and test.id in self.env[-1]:
            return self.env[-1][test.id]
        if isinstance(test, ast.Constant) and isinstance(test.value, bool):
            return test.value
        return None

    def expr(self, node, cond, fn):
        if node is None:
            return
        if isinstance(node, ast.BoolOp):
            # short-circuit evaluation: operands after a statically deciding one are not evaluated
            for v in node.values:
                f = self.fold(v)
                self.expr(v, cond, fn)
                if (isinstance(node.op, ast.Or) and f is True) or (isinstance(node.op, ast.And) and f is False):
                    return
                cond = True if f is None else cond
            return
        if isinstance(node, ast.Compare) and len(node.ops) == 1 and isinstance(node.ops[0], (ast.In, ast.NotIn)) \
                and isinstance(node.comparators[0], ast.Name) and node.comparators[0].id == "net" \
                and isinstance(node.left, ast.Constant):
            self.emit("T", node.left.value, cond, node, fn)
            return
        k = self.net_key(node)
        if k is not None:
            self.emit("R", k, cond, node, fn)
            return
        if isinstance(node, ast.Call):
            name = node.func.id if isinstance(node.func, ast.Name) else None
            if isinstance(node.func, ast.Attribute) and isinstance(node.func.value, ast.Name) and node.func.value.id == "net":
                if node.func.attr == "pop" and node.args and isinstance(node.args[0], ast.Constant):
                    self.emit("D", node.args[0].value, cond, node, fn)
                    return
                if node.func.attr == "get" and node.args and isinstance(node.args[0], ast.Constant):
                    self.emit("R", node.args[0].value, cond, node, fn)
                    return
            for a in list(node.args) + [k.value for k in node.keywords]:
                self.expr(a, cond, fn)
            if not isinstance(node.func, ast.Name):
                self.expr(node.func, cond, fn)
            if name in HELPERS:
                for kind, key in HELPERS[name]:
                    self.emit(kind, key, cond, node, fn)
                return
            if name == "create_internal_results":
                self.emit("W", "_internal_results", cond, node, fn)
                return
            if name == "write_internal_results":
                self.emit("U", "_internal_results", cond, node, fn)
                return
            if name == "set_user_pf_options":
                self.emit("U", "user_pf_options", cond, node, fn)
                return
            if name in self.bind[-1]:
                name = self.bind[-1][name]          # a function passed in as a parameter (newton_raphson's `funct`)
            if name in self.funcs and name not in self.stack and any(
                    isinstance(a, ast.Name) and a.id == "net" for a in node.args):
                fnode = self.funcs[name][0]
                b, consts = {}, {}
                for prm, a in zip(fnode.args.args, node.args):
                    if isinstance(a, ast.Name) and a.id in self.funcs:
                        b[prm.arg] = a.id
                    if isinstance(a, ast.Constant) and isinstance(a.value, bool):
                        consts[prm.arg] = a.value        # e.g. build_system_matrix(..., heat_mode=True)
                self.function(name, cond, b, consts)
            return
        for child in ast.iter_child_nodes(node):
            if isinstance(child, ast.expr):
                self.expr(child, cond, fn)

    # --- statement level ----------------------------------------------------------------------------
    def target(self, t, cond, fn):
        k = self.net_key(t)
        if k is not None:
            self.emit("W", k, cond, t, fn)
            return
        # net["_x"][...] = v  /  net._x[...] = v : in-place update of an existing object
        inner = t
        while isinstance(inner, ast.Subscript):
            inner = inner.value
            k = self.net_key(inner)
            if k is not None:
                self.emit("U", k, cond, t, fn)
                return
        if isinstance(t, ast.Tuple):
            for e in t.elts:
                self.target(e, cond, fn)

    def stmts(self, body, cond, fn, nested=True):
        for st in body:
            if isinstance(st, (ast.Assign, ast.AugAssign, ast.AnnAssign)):
                self.expr(st.value, cond, fn)
                # constant propagation of statically known booleans into local names
                if isinstance(st, ast.Assign) and len(st.targets) == 1 and isinstance(st.targets[0], ast.Name):
                    v = self.fold(st.value)
                    if v is None or nested:
                        self.env[-1].pop(st.targets[0].id, None)
                    else:
                        self.env[-1][st.targets[0].id] = v
                for t in (st.targets if isinstance(st, ast.Assign) else [st.target]):
                    self.target(t, cond, fn)
            elif isinstance(st, ast.Expr):
                self.expr(st.value, cond, fn)
            elif isinstance(st, ast.Return):
                self.expr(st.value, cond, fn)
                return
            elif isinstance(st, ast.If):
                f = self.fold(st.test)
                self.expr(st.test, cond, fn)
                if f is True:
                    self.stmts(st.body, cond, fn, nested)
                elif f is False:
                    self.stmts(st.orelse, cond, fn, nested)
                else:
                    self.mark("B", st, fn)
                    self.stmts(st.body, True, fn)
                    self.mark("E", st, fn)
                    self.stmts(st.orelse, True, fn)
                    self.mark("X", st, fn)
            elif isinstance(st, (ast.For, ast.While)):
                self.expr(st.iter if isinstance(st, ast.For) else st.test, cond, fn)
                self.mark("L", st, fn)
                self.stmts(st.body, True, fn)
                if isinstance(st, ast.While):
                    self.expr(st.test, True, fn)
                self.mark("M", st, fn)
                self.stmts(st.orelse, True, fn)
            elif isinstance(st, ast.Try):
                self.mark("B", st, fn)
                self.stmts(st.body, True, fn)
                self.mark("E", st, fn)
                for h in st.handlers:
                    self.stmts(h.body, True, fn)
                self.mark("X", st, fn)
                self.stmts(st.finalbody, cond, fn)
            elif isinstance(st, ast.Raise):
                self.expr(st.exc, cond, fn)
                return
            elif isinstance(st, ast.With):
                self.stmts(st.body, cond, fn)

    def function(self, name, cond, bindings=None, consts=None):
        node, path = self.funcs[name]
        self.stack.append(name)
        self.bind.append(bindings or {})
        self.env.append(dict(consts or {}))
        self.stmts(node.body, cond, name, nested=False)
        self.env.pop()
        self.bind.pop()
        self.stack.pop()


def scan(entry="pipeflow"):
    sc = Scanner()
    if entry not in sc.funcs:
        raise kpy2lean.TranslateError("function %s not found in pipeflow.py" % entry)
    sc.function(entry, False)
    # compress consecutive duplicate accesses and empty branch / loop brackets
    out = []
    for ev in sc.events:
        if out and ev[1] and out[-1][:2] == ev[:2]:
            continue
        out.append(ev)
    changed = True
    while changed:
        changed = False
        i = 0
        res = []
        while i < len(out):
            if i + 2 < len(out) and [out[i][0], out[i + 1][0], out[i + 2][0]] == ["B", "E", "X"]:
                i += 3
                changed = True
                continue
            if i + 1 < len(out) and [out[i][0], out[i + 1][0]] == ["L", "M"]:
                i += 2
                changed = True
                continue
            res.append(out[i])
            i += 1
        out = res
    return out


def gen_rwsets():
    ev = scan("pipeflow")
    if len(ev) < 20:
        raise kpy2lean.TranslateError("read/write scan of pipeflow() found only %d events" % len(ev))
    lines = ["-- GENERATED by translator/rwsets.py from /repo's working tree. Do not edit.", "",
             "namespace PPV.Gen.RWSets", "",
             "/-- R read, W (re)binding, U in-place update, T existence test, D deletion; structure markers: B branch begins,",
             "    E else, X branch ends, L loop begins, M loop ends -/",
             "inductive Kind where | R | W | U | T | D | B | E | X | L | M deriving DecidableEq, Repr", "",
             "/-- accesses of the net's internal keys along `pipeflow(net, ...)`, in execution order of the source",
             "    (calls inlined; branches with unknown tests scanned in source order with their writes marked `C`) -/",
             "def pipeflowEvents : List (Kind × String) := ["]
    lines.append(",\n".join('  (.%s, "%s")  -- %s:%d' % (k, key, fn, ln) if False else '  (.%s, "%s")' % (k, key)
                            for k, key, fn, ln in ev))
    lines.append("]")
    lines.append("")
    lines.append("end PPV.Gen.RWSets")
    meta = {"events": [[k, key, fn, ln] for k, key, fn, ln in ev]}
    return "\n".join(lines) + "\n", meta


if __name__ == "__main__":
    for e in scan():
        print(e)
