"""
kpy2lean -- translate the straight-line numeric kernels of pandapipes (numpy twins and numba
twins) from the *current* /repo working tree into per-element Lean 4 definitions that are
polymorphic in `PPV.NumOps`.

The accepted Python subset ("KPy") is described in DESIGN.md section 5.1.  Anything outside it is a
hard error naming file:line (class TranslateError); the caller turns that into a broken tie.

Per-element view
----------------
numpy code is vectorised over the rows of the branch (or node) pit; numba code loops `for i in
range(n)`.  Both are mapped to ONE function of the row:

    branch_pit[:, COL] | branch_pit[i][COL] | branch_pit[i, COL]      -> b.COL
    node_pit[from_nodes, COL] | node_pit[fn, COL]                      -> nf.COL
    node_pit[to_nodes, COL]   | node_pit[tn, COL]                      -> nt.COL
    node_pit[:, COL] | node_pit[i][COL]      (node-domain kernels)    -> n.COL
    arr | arr[i] | arr[mask]        (array-valued python parameter)   -> arr
    x[mask] = e                                                        -> x := sel mask e x
    for i in range(..): body                                           -> body
    if c: A else: B                                                    -> per-variable `sel c a b`

Every python assignment becomes one `let` in source order, so the floating-point evaluation order
of the generated code is the code's.
"""
import ast
import os

REPO = os.environ.get("PPV_REPO", "/repo")
SRC = os.path.join(REPO, "src", "pandapipes")


class TranslateError(Exception):
    pass


# ---------------------------------------------------------------------------------------------
# helpers for reading module level facts
# ---------------------------------------------------------------------------------------------
def read_module(relpath):
    path = os.path.join(SRC, relpath)
    with open(path) as f:
        src = f.read()
    return ast.parse(src, filename=path), path


def module_int_constants(relpath):
    """NAME = <int literal> assignments of idx_node.py / idx_branch.py, in source order."""
    tree, path = read_module(relpath)
    out = []
    for st in tree.body:
        if isinstance(st, ast.Assign) and len(st.targets) == 1 and isinstance(st.targets[0], ast.Name) \
                and isinstance(st.value, ast.Constant) and isinstance(st.value.value, int):
            out.append((st.targets[0].id, st.value.value))
    return out


def module_float_constants(relpath):
    tree, path = read_module(relpath)
    out = []
    for st in tree.body:
        if isinstance(st, ast.Assign) and len(st.targets) == 1 and isinstance(st.targets[0], ast.Name) \
                and isinstance(st.value, ast.Constant) and isinstance(st.value.value, (int, float)):
            seg = ast.get_source_segment(open(path).read(), st.value)
            out.append((st.targets[0].id, st.value.value, seg))
    return out


def import_aliases(tree):
    """maps local name -> (module, original name) for `from X import A as B`."""
    out = {}
    for st in ast.walk(tree):
        if isinstance(st, ast.ImportFrom) and st.module:
            for a in st.names:
                out[a.asname or a.name] = (st.module, a.name)
    return out


# ---------------------------------------------------------------------------------------------
# values in the symbolic environment
# ---------------------------------------------------------------------------------------------
class Val:
    """kind: 'num' | 'bool' | 'idx_from' | 'idx_to' | 'idx_self' | 'pit_b' | 'pit_n' | 'err' | 'const'"""

    def __init__(self, kind, lean=None, msg=None, pyconst=None):
        self.kind, self.lean, self.msg, self.pyconst = kind, lean, msg, pyconst

    def __repr__(self):
        return "Val(%s,%s)" % (self.kind, self.lean or self.msg)


def lean_float_literal(seg):
    s = seg.strip().replace("_", "")
    if s.endswith("."):
        s = s + "0"
    if s.startswith("."):
        s = "0" + s
    # 1.e-8 -> 1.0e-8
    s = s.replace(".e", ".0e").replace(".E", ".0e")
    return "(%s : α)" % s


class KernelTranslator:
    def __init__(self, relpath, funcname, lean_name, domain="branch", outputs=None, fold=None,
                 overrides=None, loop_index=0, scalar_params=(), bool_params=(), drop_params=(),
                 idx_names=None):
        self.relpath, self.funcname, self.lean_name = relpath, funcname, lean_name
        self.domain = domain                    # 'branch' | 'node' | 'free'
        self.want = outputs                     # names of returned variables to emit (None = all)
        self.fold = dict(fold or {})            # python name -> python constant (e.g. transient=False)
        self.overrides = dict(overrides or {})  # python name -> ('param', kind) | ('lean', expr, kind)
        self.loop_index = loop_index
        self.scalar_params = set(scalar_params)
        self.bool_params = set(bool_params)
        self.drop_params = set(drop_params)
        self.idx_names = idx_names or {}
        self.tree, self.path = read_module(relpath)
        self.src = open(self.path).read()
        self.aliases = import_aliases(self.tree)
        self.funcs = {n.name: n for n in self.tree.body if isinstance(n, ast.FunctionDef)}
        if funcname not in self.funcs and not getattr(self, "classname", None):
            raise TranslateError("%s: function %s not found" % (self.path, funcname))
        self.lets = []
        self.counter = {}
        self.extra_params = []   # (lean name, type)
        self.fn_params = []      # uninterpreted functions (fluid property calls)
        self.fn_arity = {}
        self.uses_rows = set()

    # -- utilities ---------------------------------------------------------------------------
    def err(self, node, msg):
        return TranslateError("%s:%s: %s" % (self.path, getattr(node, "lineno", "?"), msg))

    def fresh(self, base):
        base = base.rstrip("_") or "v"
        k = self.counter.get(base, 0)
        self.counter[base] = k + 1
        return base if k == 0 else "%s_%d" % (base, k)

    def emit(self, base, val):
        """bind val to a fresh lean name and return a Val referring to it"""
        if val.kind not in ("num", "bool"):
            return val
        name = self.fresh(base)
        self.lets.append((name, val.lean, val.kind))
        return Val(val.kind, name)

    def colname(self, node):
        """resolve a column constant (possibly aliased) to its name in idx_node / idx_branch"""
        if isinstance(node, ast.Name):
            loc = node.id
            if loc in self.aliases:
                mod, orig = self.aliases[loc]
                if mod.endswith("idx_branch") or mod.endswith("idx_node"):
                    return orig
            raise self.err(node, "column index %s is not an idx_* import" % loc)
        if isinstance(node, ast.Subscript):
            # branch_pit_old_lookup[TOUTINIT] -- transient only
            raise self.err(node, "lookup-indirected column")
        raise self.err(node, "unsupported column expression")

    # -- expressions -------------------------------------------------------------------------
    def num(self, v, node):
        if v.kind == "num":
            return v.lean
        if v.kind == "const":
            c = v.pyconst
            if isinstance(c, bool):
                raise self.err(node, "bool used as number")
            if isinstance(c, int):
                return "(ofN %d)" % c if c >= 0 else "(-(ofN %d))" % (-c)
            if isinstance(c, float):
                return lean_float_literal(repr(c))
        if v.kind == "err":
            raise TranslateError(v.msg)
        raise self.err(node, "expected number, got %s" % v.kind)

    def boolean(self, v, node):
        if v.kind == "bool":
            return v.lean
        if v.kind == "const" and isinstance(v.pyconst, bool):
            return "true" if v.pyconst else "false"
        if v.kind == "err":
            raise TranslateError(v.msg)
        raise self.err(node, "expected bool, got %s" % v.kind)

    def expr(self, node, env):
        if isinstance(node, ast.Constant):
            if isinstance(node.value, bool):
                return Val("const", pyconst=node.value)
            if isinstance(node.value, int):
                return Val("const", pyconst=node.value)
            if isinstance(node.value, float):
                seg = ast.get_source_segment(self.src, node)
                return Val("num", lean_float_literal(seg))
            if node.value is None:
                return Val("err", msg="None value")
            raise self.err(node, "unsupported constant %r" % (node.value,))
        if isinstance(node, ast.Name):
            if node.id in self.fold:
                return Val("const", pyconst=self.fold[node.id])
            if node.id in env:
                return env[node.id]
            if node.id in self.aliases:
                mod, orig = self.aliases[node.id]
                if mod.endswith("constants"):
                    return Val("num", "(Constants.%s : α)" % orig)
            return Val("err", msg="%s:%s: unbound name %s" % (self.path, node.lineno, node.id))
        if isinstance(node, ast.Attribute):
            if isinstance(node.value, ast.Name) and node.value.id == "np" and node.attr == "pi":
                return Val("num", "(pi : α)")
            if isinstance(node.value, ast.Name) and node.value.id == "np" and node.attr == "nan":
                return Val("num", "((ofN 0) / (ofN 0) : α)")
            if node.attr in self.fold and isinstance(node.value, ast.Name) and node.value.id == "fluid":
                return Val("const", pyconst=self.fold[node.attr])
            return Val("err", msg="%s:%s: attribute %s" % (self.path, node.lineno, node.attr))
        if isinstance(node, ast.UnaryOp):
            v = self.expr(node.operand, env)
            if v.kind == "err":
                return v
            if isinstance(node.op, ast.USub):
                if v.kind == "const" and not isinstance(v.pyconst, bool):
                    return Val("const", pyconst=-v.pyconst)
                return Val("num", "(-%s)" % self.num(v, node))
            if isinstance(node.op, (ast.Invert, ast.Not)):
                if v.kind == "const" and isinstance(v.pyconst, bool):
                    return Val("const", pyconst=not v.pyconst)
                return Val("bool", "(!%s)" % self.boolean(v, node))
            if isinstance(node.op, ast.UAdd):
                return v
            raise self.err(node, "unary op")
        if isinstance(node, ast.BinOp):
            a = self.expr(node.left, env)
            b = self.expr(node.right, env)
            if a.kind == "err":
                return a
            if b.kind == "err":
                return b
            if isinstance(node.op, (ast.BitAnd, ast.BitOr)):
                return self.boolop(isinstance(node.op, ast.BitAnd), [a, b], node)
            if isinstance(node.op, ast.Pow):
                return self.power(a, b, node)
            # python-level constant folding of int/int etc. exactly as python does
            if a.kind == "const" and b.kind == "const":
                x, y = a.pyconst, b.pyconst
                try:
                    r = {ast.Add: lambda: x + y, ast.Sub: lambda: x - y, ast.Mult: lambda: x * y,
                         ast.Div: lambda: x / y}[type(node.op)]()
                except KeyError:
                    raise self.err(node, "binary op")
                if isinstance(r, float):
                    # keep the operation visible (the Float instance evaluates it identically)
                    op = {ast.Add: "+", ast.Sub: "-", ast.Mult: "*", ast.Div: "/"}[type(node.op)]
                    return Val("num", "(%s %s %s)" % (self.num(a, node), op, self.num(b, node)))
                return Val("const", pyconst=r)
            op = {ast.Add: "+", ast.Sub: "-", ast.Mult: "*", ast.Div: "/"}.get(type(node.op))
            if op is None:
                raise self.err(node, "binary operator %s" % type(node.op).__name__)
            return Val("num", "(%s %s %s)" % (self.num(a, node), op, self.num(b, node)))
        if isinstance(node, ast.BoolOp):
            vals = [self.expr(v, env) for v in node.values]
            for v in vals:
                if v.kind == "err":
                    return v
            return self.boolop(isinstance(node.op, ast.And), vals, node)
        if isinstance(node, ast.Compare):
            if len(node.ops) != 1:
                raise self.err(node, "chained comparison")
            a = self.expr(node.left, env)
            b = self.expr(node.comparators[0], env)
            if a.kind == "err":
                return a
            if b.kind == "err":
                return b
            x, y = self.num(a, node), self.num(b, node)
            op = node.ops[0]
            if isinstance(op, ast.Lt):
                return Val("bool", "(lt %s %s)" % (x, y))
            if isinstance(op, ast.LtE):
                return Val("bool", "(le %s %s)" % (x, y))
            if isinstance(op, ast.Gt):
                return Val("bool", "(lt %s %s)" % (y, x))
            if isinstance(op, ast.GtE):
                return Val("bool", "(le %s %s)" % (y, x))
            if isinstance(op, ast.NotEq):
                return Val("bool", "(neq %s %s)" % (x, y))
            if isinstance(op, ast.Eq):
                return Val("bool", "(!(neq %s %s))" % (x, y))
            raise self.err(node, "comparison operator")
        if isinstance(node, ast.IfExp):
            c = self.expr(node.test, env)
            a = self.expr(node.body, env)
            b = self.expr(node.orelse, env)
            for v in (c, a, b):
                if v.kind == "err":
                    return v
            if c.kind == "const":
                return a if c.pyconst else b
            if a.kind == "bool" or b.kind == "bool":
                return Val("bool", "(if %s then %s else %s)" % (self.boolean(c, node), self.boolean(a, node),
                                                              self.boolean(b, node)))
            return Val("num", "(sel %s %s %s)" % (self.boolean(c, node), self.num(a, node), self.num(b, node)))
        if isinstance(node, ast.Call):
            return self.call(node, env)
        if isinstance(node, ast.Subscript):
            return self.subscript(node, env)
        if isinstance(node, ast.Tuple):
            return Val("err", msg="%s:%s: tuple expression" % (self.path, node.lineno))
        return Val("err", msg="%s:%s: unsupported expression %s" % (self.path, node.lineno, type(node).__name__))

    def boolop(self, is_and, vals, node):
        # constant folding (for `transient`)
        rest = []
        for v in vals:
            if v.kind == "const" and isinstance(v.pyconst, bool):
                if is_and and not v.pyconst:
                    return Val("const", pyconst=False)
                if (not is_and) and v.pyconst:
                    return Val("const", pyconst=True)
                continue
            rest.append(v)
        if not rest:
            return Val("const", pyconst=is_and)
        if len(rest) == 1:
            return rest[0]
        op = " && " if is_and else " || "
        return Val("bool", "(" + op.join(self.boolean(v, node) for v in rest) + ")")

    def power(self, a, b, node):
        if b.kind == "const" and b.pyconst == 2:
            return Val("num", "(sq %s)" % self.num(a, node))
        if b.kind == "const" and b.pyconst == 3:
            return Val("num", "(cube %s)" % self.num(a, node))
        return Val("num", "(npow %s %s)" % (self.num(a, node), self.num(b, node)))

    def callname(self, f):
        if isinstance(f, ast.Name):
            return f.id
        if isinstance(f, ast.Attribute) and isinstance(f.value, ast.Name) and f.value.id in ("np", "numpy", "math"):
            return "np." + f.attr
        if isinstance(f, ast.Attribute):
            return "." + f.attr
        return None

    def call(self, node, env):
        name = self.callname(node.func)
        args = node.args
        kw = {k.arg: k.value for k in node.keywords}
        un = {"np.abs": "nabs", "abs": "nabs", "np.exp": "nexp", "np.log": "nlog", "np.log10": "nlog10",
              "np.sqrt": "nsqrt"}
        if name in un and len(args) == 1:
            v = self.expr(args[0], env)
            if v.kind == "err":
                return v
            if v.kind == "bool":
                # numba twin writes abs(x < eps) -- abs of a bool is the bool itself
                return v
            return Val("num", "(%s %s)" % (un[name], self.num(v, node)))
        bi = {"np.maximum": "nmax", "max": "nmax", "np.minimum": "nmin", "min": "nmin", "np.power": "npow"}
        if name in bi and len(args) == 2:
            a, b = self.expr(args[0], env), self.expr(args[1], env)
            for v in (a, b):
                if v.kind == "err":
                    return v
            if name == "np.power":
                return self.power(a, b, node)
            return Val("num", "(%s %s %s)" % (bi[name], self.num(a, node), self.num(b, node)))
        if name == "np.divide" and len(args) == 2:
            a, b = self.expr(args[0], env), self.expr(args[1], env)
            for v in (a, b):
                if v.kind == "err":
                    return v
            return Val("num", "(%s / %s)" % (self.num(a, node), self.num(b, node)))
        if name == "np.less_equal" and len(args) == 2:
            a, b = self.expr(args[0], env), self.expr(args[1], env)
            for v in (a, b):
                if v.kind == "err":
                    return v
            return Val("bool", "(le %s %s)" % (self.num(a, node), self.num(b, node)))
        if name == "np.empty_like":
            # an array that must be completely overwritten (complementary masked writes) before it is read
            return Val("uninit")
        if name == ".get_compressibility" and len(args) in (1, 2):
            # fluid property call: an uninterpreted function parameter `Z p T` of the generated definition
            vs = [self.expr(x, env) for x in args]
            for v in vs:
                if v.kind == "err":
                    return v
            if "Z" not in self.fn_params:
                self.fn_params.append("Z")
                self.fn_arity["Z"] = 2
            if len(vs) == 1:
                return Val("err", msg="%s:%s: one-argument compressibility" % (self.path, node.lineno))
            return Val("num", "(Z %s %s)" % (self.num(vs[0], node), self.num(vs[1], node)))
        if name == ".get_density" and len(args) == 1:
            v = self.expr(args[0], env)
            if v.kind == "err":
                return v
            if "Rho" not in self.fn_params:
                self.fn_params.append("Rho")
                self.fn_arity["Rho"] = 1
            return Val("num", "(Rho %s)" % self.num(v, node))
        if name == "get_from_nodes_corrected" and len(args) == 1:
            return Val("idx_from_corr")
        if name == "get_to_nodes_corrected" and len(args) == 1:
            return Val("idx_to_corr")
        if name == "np.isnan":
            v = self.expr(args[0], env)
            if v.kind == "err":
                return v
            return Val("bool", "(isNaN %s)" % self.num(v, node))
        if name == "np.isclose":
            a, b = self.expr(args[0], env), self.expr(args[1], env)
            for v in (a, b):
                if v.kind == "err":
                    return v
            rtol = self.expr(kw["rtol"], env) if "rtol" in kw else Val("num", "(1e-5 : α)")
            atol = self.expr(kw["atol"], env) if "atol" in kw else Val("num", "(1e-8 : α)")
            if len(args) > 2:
                rtol = self.expr(args[2], env)
            if len(args) > 3:
                atol = self.expr(args[3], env)
            return Val("bool", "(isclose %s %s %s %s)" % (self.num(a, node), self.num(b, node),
                                                         self.num(rtol, node), self.num(atol, node)))
        if name in ("np.ones_like", "np.zeros_like", "np.ones", "np.zeros", "np.empty"):
            dt = kw.get("dtype")
            isbool = dt is not None and "bool" in ast.dump(dt)
            if isbool:
                return Val("const", pyconst=(name in ("np.ones_like", "np.ones")))
            if name == "np.empty":
                return Val("err", msg="%s:%s: uninitialised np.empty read" % (self.path, node.lineno))
            return Val("const", pyconst=1 if name in ("np.ones_like", "np.ones") else 0)
        if name == "np.full" and len(args) == 2:
            return self.expr(args[1], env)
        if name in (".copy", ".astype") and isinstance(node.func, ast.Attribute):
            inner = self.expr(node.func.value, env)
            if name == ".astype" and args and "bool" in ast.dump(args[0]) and inner.kind == "num":
                return Val("bool", "(neq %s (ofN 0))" % inner.lean)
            return inner
        if name == "np.where" and len(args) == 3:
            c, a, b = (self.expr(x, env) for x in args)
            for v in (c, a, b):
                if v.kind == "err":
                    return v
            return Val("num", "(sel %s %s %s)" % (self.boolean(c, node), self.num(a, node), self.num(b, node)))
        if name == "np.any" or name == "np.all" or name == "np.sum":
            return Val("err", msg="%s:%s: reduction %s" % (self.path, node.lineno, name))
        # same-module helper with a single return expression -> inline
        if name in self.funcs:
            f = self.funcs[name]
            body = [s for s in f.body if not (isinstance(s, ast.Expr) and isinstance(s.value, ast.Constant))]
            if len(body) == 1 and isinstance(body[0], ast.Return):
                sub = {}
                for p, a in zip(f.args.args, args):
                    sub[p.arg] = self.expr(a, env)
                return self.expr(body[0].value, dict(env, **sub))
        return Val("err", msg="%s:%s: unsupported call %s" % (self.path, node.lineno, name))

    def subscript(self, node, env):
        base = node.value
        sl = node.slice
        # X[i][COL]
        if isinstance(base, ast.Subscript):
            inner = self.expr_pit(base.value, env)
            if inner is not None and inner.kind in ("pit_b", "pit_n"):
                who = self.rowsel(base.slice, env, node, inner)
                return self.col(inner, who, sl, node)
        pit = self.expr_pit(base, env)
        if pit is not None and pit.kind in ("pit_b", "pit_n"):
            if isinstance(sl, ast.Tuple) and len(sl.elts) == 2:
                who = self.rowsel(sl.elts[0], env, node, pit)
                return self.col(pit, who, sl.elts[1], node)
            return Val("err", msg="%s:%s: whole-row pit read" % (self.path, node.lineno))
        v = self.expr(base, env)
        if v.kind in ("num", "bool", "const", "idx_from", "idx_to", "idx_self"):
            # arr[i] / arr[mask] / from_nodes[i] : element of the current row
            s = self.expr(sl, env) if not isinstance(sl, ast.Slice) else Val("idx_self")
            if s.kind in ("idx_self", "bool", "const"):
                return v
            if s.kind in ("idx_from", "idx_to"):
                return Val("err", msg="%s:%s: gather through from/to index" % (self.path, node.lineno))
            return Val("err", msg="%s:%s: unsupported index" % (self.path, node.lineno))
        return v

    def expr_pit(self, node, env):
        if isinstance(node, ast.Name) and node.id in env and env[node.id].kind in ("pit_b", "pit_n"):
            return env[node.id]
        return None

    def rowsel(self, node, env, ctx, pit):
        if isinstance(node, ast.Slice):
            return "self"
        v = self.expr(node, env)
        if v.kind == "idx_self":
            return "self"
        if v.kind == "idx_from":
            return "from"
        if v.kind == "idx_to":
            return "to"
        if v.kind == "bool":
            return "self"
        if v.kind in ("idx_from_corr", "idx_to_corr"):
            return v.kind
        raise self.err(ctx, "unsupported row selector for pit read")

    def col(self, pit, who, colnode, ctx):
        c = self.colname(colnode)
        if pit.kind == "pit_b":
            if who != "self":
                raise self.err(ctx, "branch pit read through node index")
            self.uses_rows.add("b")
            return Val("num", "b.%s" % c)
        if who in ("idx_from_corr", "idx_to_corr"):
            # get_from_nodes_corrected / get_to_nodes_corrected: the node where the fluid enters / leaves the branch
            self.uses_rows.update(("b", "nf", "nt"))
            a, o = ("nt", "nf") if who == "idx_from_corr" else ("nf", "nt")
            return Val("num", "(sel (neq b.FROM_NODE_T_SWITCHED (ofN 0)) %s.%s %s.%s)" % (a, c, o, c))
        if who == "self":
            self.uses_rows.add("n")
            return Val("num", "n.%s" % c)
        self.uses_rows.add("nf" if who == "from" else "nt")
        return Val("num", "%s.%s" % ("nf" if who == "from" else "nt", c))

    # -- statements --------------------------------------------------------------------------
    def assign_target(self, tgt, val, env, node, aug=None):
        if isinstance(tgt, ast.Name):
            name = tgt.id
            if name in self.overrides:
                return
            if aug is not None:
                old = env.get(name, Val("err", msg="augassign of unbound %s" % name))
                val = self.combine(old, val, aug, node)
            env[name] = self.emit(name, val)
            return
        if isinstance(tgt, ast.Subscript) and isinstance(tgt.value, ast.Name):
            name = tgt.value.id
            if name in self.overrides:
                return
            old = env.get(name, Val("err", msg="%s:%s: masked write to unbound %s" % (self.path, node.lineno, name)))
            if old.kind in ("pit_b", "pit_n"):
                env[name + "#w"] = Val("err", msg="pit write")
                return
            s = self.expr(tgt.slice, env)
            if aug is not None:
                val = self.combine(old, val, aug, node)
            if s.kind == "idx_self":
                env[name] = self.emit(name, val)
                return
            if s.kind == "const" and isinstance(s.pyconst, bool):
                if s.pyconst:
                    env[name] = self.emit(name, val)
                return
            if s.kind == "bool" and old.kind == "uninit" and val.kind in ("num", "const"):
                part = Val("partial")
                part.mask, part.val = s.lean, self.num(val, node)
                env[name] = part
                return
            if s.kind == "bool" and old.kind == "partial" and val.kind in ("num", "const"):
                if s.lean != "(!%s)" % old.mask and old.mask != "(!%s)" % s.lean:
                    env[name] = Val("err", msg="%s:%s: masked writes to %s do not cover the array" % (
                        self.path, node.lineno, name))
                    return
                env[name] = self.emit(name, Val("num", "(sel %s %s %s)" % (s.lean, self.num(val, node), old.val)))
                return
            if s.kind == "bool":
                if val.kind == "err" or old.kind == "err":
                    env[name] = val if val.kind == "err" else old
                    return
                if old.kind == "bool" or (old.kind == "const" and isinstance(old.pyconst, bool)):
                    merged = Val("bool", "(if %s then %s else %s)" % (s.lean, self.boolean(val, node),
                                                                    self.boolean(old, node)))
                else:
                    merged = Val("num", "(sel %s %s %s)" % (s.lean, self.num(val, node), self.num(old, node)))
                env[name] = self.emit(name, merged)
                return
            env[name] = Val("err", msg="%s:%s: scatter write to %s" % (self.path, node.lineno, name))
            return
        if isinstance(tgt, ast.Tuple):
            for t in tgt.elts:
                if isinstance(t, ast.Name) and t.id not in self.overrides:
                    env[t.id] = Val("err", msg="%s:%s: tuple-assigned %s" % (self.path, node.lineno, t.id))
            return
        raise self.err(node, "unsupported assignment target")

    def combine(self, old, val, op, node):
        if old.kind == "err":
            return old
        if val.kind == "err":
            return val
        o = {ast.Add: "+", ast.Sub: "-", ast.Mult: "*", ast.Div: "/"}.get(type(op))
        if o is None:
            if isinstance(op, (ast.BitAnd, ast.BitOr)):
                return self.boolop(isinstance(op, ast.BitAnd), [old, val], node)
            raise self.err(node, "augmented operator")
        return Val("num", "(%s %s %s)" % (self.num(old, node), o, self.num(val, node)))

    def stmts(self, body, env):
        for st in body:
            ret = self.stmt(st, env)
            if ret is not None:
                return ret
        return None

    def stmt(self, st, env):
        if isinstance(st, ast.Expr):
            return None
        if isinstance(st, ast.Assign):
            val = self.expr(st.value, env)
            for t in st.targets:
                self.assign_target(t, val, env, st)
            return None
        if isinstance(st, ast.AugAssign):
            val = self.expr(st.value, env)
            self.assign_target(st.target, val, env, st, aug=st.op)
            return None
        if isinstance(st, ast.For):
            k = self.loops_seen
            self.loops_seen += 1
            if k != self.loop_index:
                return None
            # for i in range(n)  |  for i, mi in enumerate(m)
            if isinstance(st.target, ast.Name):
                env[st.target.id] = Val("idx_self")
            elif isinstance(st.target, ast.Tuple) and len(st.target.elts) == 2 and \
                    self.callname(st.iter.func) == "enumerate":
                env[st.target.elts[0].id] = Val("idx_self")
                env[st.target.elts[1].id] = self.expr(st.iter.args[0], env)
            else:
                raise self.err(st, "unsupported loop header")
            return self.stmts(st.body, env)
        if isinstance(st, ast.If):
            c = self.expr(st.test, env)
            if c.kind == "const":
                return self.stmts(st.body if c.pyconst else st.orelse, env)
            if c.kind == "err":
                # e.g. `if np.any(...)`: a vectorised guard.  Accept when the guarded body is a
                # pure masked update (the numpy idiom `if np.any(mask): x[mask] = ...`) or logging.
                only_log = all(isinstance(s, ast.Expr) for s in st.body) and not st.orelse
                if only_log:
                    return None
                if self.is_any_guard(st.test) and not st.orelse:
                    if any(isinstance(s, ast.Return) for s in st.body):
                        return None     # early return when no row needs the general path
                    return self.stmts(st.body, env)
                raise TranslateError(c.msg)
            env_t, env_e = dict(env), dict(env)
            rt = self.stmts(st.body, env_t)
            re_ = self.stmts(st.orelse, env_e)
            if rt is not None or re_ is not None:
                raise self.err(st, "return inside data-dependent if")
            cl = self.boolean(c, st)
            for name in sorted(set(env_t) | set(env_e)):
                a, b = env_t.get(name), env_e.get(name)
                if a is b:
                    continue
                if a is None or b is None:
                    # defined in one branch only: local temporary, keep out of the merged scope
                    continue
                if a.kind == "err" or b.kind == "err":
                    env[name] = a if a.kind == "err" else b
                    continue
                if a.kind in ("num", "bool", "const") and b.kind in ("num", "bool", "const"):
                    isb = (a.kind == "bool" or b.kind == "bool" or
                           (a.kind == "const" and isinstance(a.pyconst, bool)) or
                           (b.kind == "const" and isinstance(b.pyconst, bool)))
                    if isb:
                        m = Val("bool", "(if %s then %s else %s)" % (cl, self.boolean(a, st), self.boolean(b, st)))
                    else:
                        m = Val("num", "(sel %s %s %s)" % (cl, self.num(a, st), self.num(b, st)))
                    env[name] = self.emit(name, m)
                else:
                    env[name] = a
            return None
        if isinstance(st, ast.Return):
            return st
        if isinstance(st, (ast.Pass, ast.Import, ast.ImportFrom)):
            return None
        if isinstance(st, ast.Continue):
            raise self.err(st, "continue")
        raise self.err(st, "unsupported statement %s" % type(st).__name__)

    def is_any_guard(self, test):
        t = test
        if isinstance(t, ast.UnaryOp) and isinstance(t.op, ast.Not):
            t = t.operand
        return isinstance(t, ast.Call) and self.callname(t.func) in ("np.any", "np.all")

    # -- driver ------------------------------------------------------------------------------
    def translate(self):
        f = self.funcs[self.funcname]
        env = {}
        for a in f.args.args:
            p = a.arg
            if p in self.drop_params:
                continue
            if p in self.fold:
                continue
            if p in self.overrides:
                continue
            if p in ("branch_pit",):
                env[p] = Val("pit_b")
            elif p in ("node_pit",):
                env[p] = Val("pit_n")
            elif p in ("from_nodes",):
                env[p] = Val("idx_from")
            elif p in ("to_nodes",):
                env[p] = Val("idx_to")
            elif p in self.bool_params:
                env[p] = Val("bool", p)
                self.extra_params.append((p, "Bool"))
            else:
                env[p] = Val("num", self.pyname(p))
                self.extra_params.append((self.pyname(p), "α"))
        for name, ov in self.overrides.items():
            if ov[0] == "param":
                kind = ov[1]
                env[name] = Val(kind, self.pyname(name))
                self.extra_params.append((self.pyname(name), "Bool" if kind == "bool" else "α"))
            else:
                env[name] = Val(ov[2], ov[1])
        for name, kind in self.idx_names.items():
            env[name] = Val(kind)
        self.loops_seen = 0
        # special idiom: X = branch_pit[:, FROM_NODE].astype(int)
        ret = None
        for st in f.body:
            if isinstance(st, ast.Assign) and len(st.targets) == 1 and isinstance(st.targets[0], ast.Name):
                k = self.index_idiom(st.value)
                if k:
                    env[st.targets[0].id] = Val(k)
                    continue
            r = self.stmt(st, env)
            if r is not None:
                ret = r
                break
        if ret is None:
            raise TranslateError("%s: %s has no top-level return" % (self.path, self.funcname))
        rv = ret.value
        elts = rv.elts if isinstance(rv, ast.Tuple) else [rv]
        outs = []
        for e in elts:
            nm = e.id if isinstance(e, ast.Name) else None
            if self.want is not None and nm not in self.want:
                continue
            v = self.expr(e, env)
            if v.kind == "err":
                raise TranslateError("output %s of %s: %s" % (nm, self.funcname, v.msg))
            if v.kind == "const":
                v = Val("bool", self.boolean(v, e)) if isinstance(v.pyconst, bool) else Val("num", self.num(v, e))
            outs.append((nm or "ret", v))
        if self.want is not None and [o[0] for o in outs] != list(self.want):
            missing = [w for w in self.want if w not in [o[0] for o in outs]]
            raise TranslateError("%s: %s no longer returns %s" % (self.path, self.funcname, missing))
        return self.render(outs)

    def index_idiom(self, value):
        # branch_pit[:, FROM_NODE].astype(np.int32)
        v = value
        if isinstance(v, ast.Call) and isinstance(v.func, ast.Attribute) and v.func.attr == "astype":
            v = v.func.value
        if isinstance(v, ast.Subscript) and isinstance(v.value, ast.Name) and v.value.id == "branch_pit" \
                and isinstance(v.slice, ast.Tuple) and len(v.slice.elts) == 2 \
                and isinstance(v.slice.elts[0], ast.Slice) and isinstance(v.slice.elts[1], ast.Name):
            try:
                c = self.colname(v.slice.elts[1])
            except TranslateError:
                return None
            if c == "FROM_NODE":
                return "idx_from"
            if c == "TO_NODE":
                return "idx_to"
        return None

    @staticmethod
    def pyname(p):
        p = p.rstrip("_")
        if p in ("from", "to", "at", "fun", "end", "then", "else", "do", "in", "open", "show", "have", "local"):
            p = p + "'"
        return p

    def render(self, outs):
        rows = []
        if "b" in self.uses_rows:
            rows.append("(b : BranchRow α)")
        if "n" in self.uses_rows:
            rows.append("(n : NodeRow α)")
        if "nf" in self.uses_rows:
            rows.append("(nf : NodeRow α)")
        if "nt" in self.uses_rows:
            rows.append("(nt : NodeRow α)")
        params = " ".join(rows + ["(%s : %s)" % (n, "α → α" if self.fn_arity.get(n, 2) == 1 else "α → α → α") for n in self.fn_params] +
                          ["(%s : %s)" % (n, t) for n, t in self.extra_params])
        fields = []
        for nm, v in outs:
            fields.append((nm, "Bool" if v.kind == "bool" else "α"))
        sname = self.lean_name[0].upper() + self.lean_name[1:] + "Out"
        lines = []
        lines.append("structure %s (α : Type) where" % sname)
        for nm, t in fields:
            lines.append("  %s : %s" % (self.pyname(nm), t))
        lines.append("")
        lines.append("/-- generated from `%s:%s` (%s domain) -/" % (
            os.path.relpath(self.path, REPO), self.funcname, self.domain))
        lines.append("def %s {α : Type} [NumOps α] %s : %s α :=" % (self.lean_name, params, sname))
        for name, lean, kind in self.lets:
            ty = "Bool" if kind == "bool" else "α"
            lines.append("  let %s : %s := %s" % (name, ty, lean))
        lines.append("  { " + ", ".join("%s := %s" % (self.pyname(nm), v.lean) for nm, v in outs) + " }")
        meta = {
            "lean_name": self.lean_name, "pyfile": os.path.relpath(self.path, REPO), "pyfunc": self.funcname,
            "domain": self.domain, "rows": sorted(self.uses_rows, key=["b", "n", "nf", "nt"].index),
            "extra": [[n, t] for n, t in self.extra_params], "fn_params": list(self.fn_params),
            "fn_arity": dict(self.fn_arity), "fold": {k: v for k, v in self.fold.items() if isinstance(v, (bool, int, float))},
            "outputs": [[self.pyname(nm), t] for nm, t in fields],
        }
        return "\n".join(lines) + "\n", meta


# ---------------------------------------------------------------------------------------------
# component adaption methods (class methods that update pit columns row by row)
# ---------------------------------------------------------------------------------------------
class ComponentTranslator(KernelTranslator):
    """per-row view of a component class method such as `HeatConsumer.adaption_before_derivatives_thermal`:

        hc_pit = branch_pit[f:t, :]                     -> the component's rows of the branch pit (b)
        consumer_array[:, cls.COL] / [mask, cls.COL]    -> parameter c_COL (the component's own array)
        cls.CONST                                       -> the integer class attribute
        cp = get_branch_cp(...)                         -> parameter cp (property evaluation, modelled separately)
        from_nodes = get_from_nodes_corrected(pit)      -> inlet node: nt if b.FROM_NODE_T_SWITCHED else nf
        pit[mask, COL] = e                              -> output COL := sel mask e (current value of COL)
        if np.any(mask): body                           -> body   (masked updates are no-ops on rows outside the mask);
                                                           an `elif` / `else` on such a guard couples rows and is rejected

    Outputs are the written pit columns, in order of first write."""

    PARAM_CALLS = {"get_branch_cp": "cp", "get_branch_real_density": "rho", "get_branch_real_eta": "eta"}
    DROP = ("cls", "net", "branch_pit_old", "node_pit_old", "idx_lookups", "options")

    def __init__(self, relpath, classname, funcname, lean_name, **kw):
        kw.setdefault("drop_params", self.DROP)
        self.classname = classname
        tree, path = read_module(relpath)
        cls = next((n for n in tree.body if isinstance(n, ast.ClassDef) and n.name == classname), None)
        if cls is None:
            raise TranslateError("%s: class %s not found" % (path, classname))
        self.class_consts = {}
        for st in cls.body:
            if isinstance(st, ast.Assign) and len(st.targets) == 1 and isinstance(st.targets[0], ast.Name) \
                    and isinstance(st.value, ast.Constant) and isinstance(st.value.value, int):
                self.class_consts[st.targets[0].id] = st.value.value
        super().__init__(relpath, funcname, lean_name, **{k: v for k, v in kw.items()})
        self.funcs = dict(self.funcs)
        meth = next((n for n in cls.body if isinstance(n, ast.FunctionDef) and n.name == funcname), None)
        if meth is None:
            raise TranslateError("%s: %s.%s not found" % (path, classname, funcname))
        self.funcs[funcname] = meth
        self.written = {}           # column -> Val (current value)
        self.write_order = []
        self.comp_params = set()

    # the base class looks the function up in self.funcs at construction time; allow methods
    def _method_ok(self):
        return True

    def expr(self, node, env):
        if isinstance(node, ast.Attribute) and isinstance(node.value, ast.Name) and node.value.id == "cls":
            if node.attr in self.class_consts:
                return Val("const", pyconst=self.class_consts[node.attr])
            raise self.err(node, "cls.%s is not an integer class attribute" % node.attr)
        if isinstance(node, ast.Name) and node.id not in env and node.id in self.aliases:
            mod, orig = self.aliases[node.id]
            if mod.endswith("idx_branch") or mod.endswith("idx_node"):
                # a type code (node / branch kind) used as a value, not as a column
                consts = dict(module_int_constants("idx_branch.py" if mod.endswith("idx_branch") else "idx_node.py"))
                if orig in consts:
                    return Val("const", pyconst=consts[orig])
        return super().expr(node, env)

    def call(self, node, env):
        name = self.callname(node.func)
        if name in self.PARAM_CALLS:
            if set(self.written) & {"TOUTINIT", "FROM_NODE", "TO_NODE", "FROM_NODE_T_SWITCHED"}:
                raise self.err(node, "%s evaluated after a write to a column it reads" % name)
            p = self.PARAM_CALLS[name]
            if p not in [n for n, _ in self.extra_params]:
                self.extra_params.append((p, "α"))
            return Val("num", p)
        if name == "get_from_nodes_corrected":
            return Val("idx_from_corr")
        if name == "get_to_nodes_corrected":
            return Val("idx_to_corr")
        if name == "get_component_array":
            return Val("comp")
        if name == ".astype" and isinstance(node.func, ast.Attribute) and node.args and "bool" in ast.dump(node.args[0]):
            v = self.expr(node.func.value, env)
            if v.kind == "num":
                return Val("bool", "(neq %s (ofN 0))" % v.lean)
            return v
        return super().call(node, env)

    def subscript(self, node, env):
        base, sl = node.value, node.slice
        if isinstance(base, ast.Name) and base.id in env:
            b = env[base.id]
            if b.kind == "comp":
                if isinstance(sl, ast.Tuple) and len(sl.elts) == 2:
                    c = sl.elts[1]
                    if isinstance(c, ast.Attribute) and isinstance(c.value, ast.Name) and c.value.id == "cls":
                        p = "c_" + c.attr
                        if p not in self.comp_params:
                            self.comp_params.add(p)
                            self.extra_params.append((p, "α"))
                        return Val("num", p)
                raise self.err(node, "unsupported read of the component array")
            if b.kind in ("pit_b", "pit_n"):
                # pit[f:t, :]  |  pit[mask]  : a row subset of the same pit
                if isinstance(sl, ast.Tuple) and len(sl.elts) == 2 and all(isinstance(e, ast.Slice) for e in sl.elts):
                    return b
                if not isinstance(sl, ast.Tuple):
                    s = self.expr(sl, env) if not isinstance(sl, ast.Slice) else Val("idx_self")
                    if s.kind in ("bool", "idx_self", "const"):
                        return b
                if isinstance(sl, ast.Tuple) and len(sl.elts) == 2 and b.kind == "pit_n":
                    r = self.expr(sl.elts[0], env) if not isinstance(sl.elts[0], ast.Slice) else Val("idx_self")
                    if r.kind in ("idx_from_corr", "idx_to_corr"):
                        c = self.colname(sl.elts[1])
                        self.uses_rows.add("b"); self.uses_rows.add("nf"); self.uses_rows.add("nt")
                        sw = "(neq b.FROM_NODE_T_SWITCHED (ofN 0))"
                        a, o = ("nt", "nf") if r.kind == "idx_from_corr" else ("nf", "nt")
                        return Val("num", "(sel %s %s.%s %s.%s)" % (sw, a, c, o, c))
        return super().subscript(node, env)

    def col(self, pit, who, colnode, ctx):
        c = self.colname(colnode)
        if pit.kind == "pit_b" and c in self.written:
            return self.written[c]
        return super().col(pit, who, colnode, ctx)

    def assign_target(self, tgt, val, env, node, aug=None):
        if isinstance(tgt, ast.Subscript) and isinstance(tgt.value, ast.Name) and tgt.value.id in env \
                and env[tgt.value.id].kind == "pit_b":
            sl = tgt.slice
            if not (isinstance(sl, ast.Tuple) and len(sl.elts) == 2):
                raise self.err(node, "unsupported pit write")
            c = self.colname(sl.elts[1])
            self.uses_rows.add("b")
            old = self.written.get(c, Val("num", "b.%s" % c))
            if aug is not None:
                val = self.combine(old, val, aug, node)
            r = sl.elts[0]
            s = Val("idx_self") if isinstance(r, ast.Slice) else self.expr(r, env)
            if val.kind == "err":
                raise TranslateError(val.msg)
            if s.kind == "idx_self":
                new = Val("num", self.num(val, node))
            elif s.kind == "bool":
                new = Val("num", "(sel %s %s %s)" % (s.lean, self.num(val, node), self.num(old, node)))
            else:
                raise self.err(node, "unsupported row selector in pit write")
            if c not in self.written:
                self.write_order.append(c)
            self.written[c] = self.emit("w_" + c, new)
            return
        if isinstance(tgt, ast.Name) and isinstance(node, ast.Assign) and isinstance(node.value, ast.Subscript):
            # alias of a pit row subset
            v = val
            if v.kind in ("pit_b", "pit_n", "comp", "idx_from_corr", "idx_to_corr"):
                env[tgt.id] = v
                return
        if isinstance(tgt, ast.Name) and val.kind in ("comp", "idx_from_corr", "idx_to_corr", "pit_b", "pit_n"):
            env[tgt.id] = val
            return
        return super().assign_target(tgt, val, env, node, aug)

    def stmt(self, st, env):
        if isinstance(st, ast.If) and self.is_any_guard(st.test) and st.orelse:
            raise self.err(st, "`elif`/`else` on a whole-array guard couples the rows of the component")
        if isinstance(st, ast.Assign) and len(st.targets) == 1 and isinstance(st.targets[0], ast.Name):
            # X = <branch pit alias>[:, FROM_NODE | TO_NODE].astype(int)
            v = st.value
            if isinstance(v, ast.Call) and isinstance(v.func, ast.Attribute) and v.func.attr == "astype":
                v = v.func.value
            if isinstance(v, ast.Subscript) and isinstance(v.value, ast.Name) and v.value.id in env \
                    and env[v.value.id].kind == "pit_b" and isinstance(v.slice, ast.Tuple) and len(v.slice.elts) == 2 \
                    and isinstance(v.slice.elts[0], ast.Slice) and isinstance(v.slice.elts[1], ast.Name):
                try:
                    c = self.colname(v.slice.elts[1])
                except TranslateError:
                    c = None
                if c in ("FROM_NODE", "TO_NODE"):
                    env[st.targets[0].id] = Val("idx_from" if c == "FROM_NODE" else "idx_to")
                    return None
        return super().stmt(st, env)

    def translate(self):
        f = self.funcs[self.funcname]
        env = {}
        for a in f.args.args:
            p = a.arg
            if p in self.drop_params:
                continue
            if p == "branch_pit":
                env[p] = Val("pit_b")
            elif p == "node_pit":
                env[p] = Val("pit_n")
            else:
                raise TranslateError("%s: %s.%s: unexpected parameter %s" % (self.path, self.classname, self.funcname, p))
        self.loops_seen = 0
        for st in f.body:
            r = self.stmt(st, env)
            if r is not None:
                raise self.err(st, "return in a component adaption method")
        if not self.write_order:
            raise TranslateError("%s: %s.%s writes no pit column" % (self.path, self.classname, self.funcname))
        outs = [(c, self.written[c]) for c in self.write_order]
        return self.render(outs)
