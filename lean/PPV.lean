import PPV.Model.NumOps
import PPV.Model.Options
import PPV.Gen.Constants
import PPV.Gen.Idx
import PPV.Gen.Kernels
import PPV.Gen.KernelRun
import PPV.Gen.DefaultOptions
