/-
  C19 — fluid and standard-type libraries return what their data and documentation say.

  `Gen/FluidData.lean` holds every library fluid's tables and constants as exact rationals, regenerated
  from `properties/*/*.txt` on every run; `Model/Fluid.lean` is the hand-written model of the property
  classes, mixture rules and pump curve, tied to the real classes by a correspondence on knots, random and
  out-of-range queries (scalars, arrays, Series).
-/
import PPV.Model.Fluid
import PPV.Gen.FluidData
import Mathlib.Tactic.Ring
import Mathlib.Tactic.FieldSimp
import Mathlib.Tactic.Linarith
import Mathlib.Tactic.NormNum
import Mathlib.Algebra.Order.Field.Basic
import Mathlib.Algebra.BigOperators.Group.List.Basic
import Mathlib.Data.Rat.Defs

namespace PPV.Props.C19
open PPV.Model.Fluid PPV.Gen.FluidData

/-- every tabulated point of every interpolated property of every library fluid is reproduced exactly -/
def hitsKnots (tbl : List (Rat × Rat)) : Bool := tbl.all (fun p => interp tbl p.1 == p.2)

theorem interp_hits_knots :
    library.all (fun f => hitsKnots f.density && hitsKnots f.viscosity && hitsKnots f.heat_capacity) = true := by
  decide +kernel

/-- the tables are strictly increasing in their argument (so "between" and "beyond" are well defined) -/
def increasing : List (Rat × Rat) → Bool
  | [] => true
  | [_] => true
  | a :: b :: t => decide (a.1 < b.1) && increasing (b :: t)

theorem tables_increasing :
    library.all (fun f => increasing f.density && increasing f.viscosity && increasing f.heat_capacity) = true := by
  decide +kernel

/-- between two neighbouring knots, and beyond the ends of a two-point table, the value lies on the straight
    line through them (general two-knot statement; longer tables reduce to it segment by segment) -/
theorem interp_two_knots (x0 y0 x1 y1 x : Rat) : interp [(x0, y0), (x1, y1)] x = seg x0 y0 x1 y1 x := by
  simp [interp]

/-- first segment of any table: for `x ≤ x₁` (including extrapolation below `x₀`) the first line is used -/
theorem interp_first_segment (x0 y0 x1 y1 : Rat) (rest : List (Rat × Rat)) (x : Rat) (h : x ≤ x1) :
    interp ((x0, y0) :: (x1, y1) :: rest) x = seg x0 y0 x1 y1 x := by
  simp [interp, h]

/-- beyond the second knot the first knot no longer matters (the walk moves on) -/
theorem interp_skip (x0 y0 x1 y1 : Rat) (p : Rat × Rat) (rest : List (Rat × Rat)) (x : Rat) (h : x1 < x) :
    interp ((x0, y0) :: (x1, y1) :: p :: rest) x = interp ((x1, y1) :: p :: rest) x := by
  have : ¬ x ≤ x1 := not_le.2 h
  simp [interp, this]

/-- a segment is linear: equal increments of the argument give equal increments of the value -/
theorem seg_linear (x0 y0 x1 y1 a c : Rat) (h : x0 ≠ x1) :
    seg x0 y0 x1 y1 (a + c) - seg x0 y0 x1 y1 a = (y1 - y0) / (x1 - x0) * c := by
  unfold seg
  have : x1 - x0 ≠ 0 := sub_ne_zero.2 (Ne.symm h)
  field_simp
  ring

/-- the stored compressibility derivative equals the slope of the linear compressibility law — for every
    library fluid except hydrogen, whose two data files disagree (known finding) -/
theorem compr_slope_eq_der_partial :
    (library.filter (fun f => f.name != "hydrogen")).all (fun f => f.comprSlope == f.derCompressibility) = true := by
  decide +kernel

/-- machine-checked witness of the data inconsistency: hydrogen's slope 0.0006 vs stored derivative 0.000637 -/
theorem hydrogen_compr_slope_ne_der : hydrogen.comprSlope ≠ hydrogen.derCompressibility := by decide +kernel

/-! ### integrals -/

theorem inter_integral_antisymm (tbl : List (Rat × Rat)) (a c : Rat) :
    interIntegral tbl a c = - interIntegral tbl c a := by
  unfold interIntegral; ring

theorem const_integral_antisymm (v a c : Rat) : constIntegral v a c = - constIntegral v c a := by
  unfold constIntegral; ring

theorem const_integral_additive (v a c d : Rat) : constIntegral v a c + constIntegral v c d = constIntegral v a d := by
  unfold constIntegral; ring

theorem lin_integral_antisymm (s o a c : Rat) : linIntegral s o a c = - linIntegral s o c a := by
  unfold linIntegral; ring

theorem lin_integral_additive (s o a c d : Rat) : linIntegral s o a c + linIntegral s o c d = linIntegral s o a d := by
  unfold linIntegral; ring

/-- consistency with the property values: the integral of a linear property over `[c, a]` is the mean of the
    end values times the width (exact for linear functions) -/
theorem lin_integral_consistent (s o a c : Rat) :
    linIntegral s o a c = (linValue s o a + linValue s o c) / 2 * (a - c) := by
  unfold linIntegral linValue; ring

/-! ### mixtures -/

theorem zipWith_div_sum (l : List Rat) (d : Rat) : (l.map (· / d)).sum = l.sum / d := by
  induction l with
  | nil => simp
  | cons a t ih => simp only [List.map_cons, List.sum_cons, ih]; ring

/-- mass fractions computed from molar fractions sum to one -/
theorem fractions_sum_one (x m : List Rat) (h : mixMolarMass x m ≠ 0) : (massFractions x m).sum = 1 := by
  unfold massFractions
  rw [zipWith_div_sum]
  exact div_self h

/-- a mass-weighted mean with non-negative weights summing to one stays within the component bounds -/
theorem mixture_within_bounds (c w : List Rat) (lo hi : Rat) (hlen : c.length = w.length)
    (hw : ∀ v ∈ w, 0 ≤ v) (hsum : w.sum = 1) (hc : ∀ v ∈ c, lo ≤ v ∧ v ≤ hi) :
    lo ≤ mixHeatCapacity c w ∧ mixHeatCapacity c w ≤ hi := by
  unfold mixHeatCapacity
  have key : ∀ (c w : List Rat), c.length = w.length → (∀ v ∈ w, 0 ≤ v) → (∀ v ∈ c, lo ≤ v ∧ v ≤ hi) →
      lo * w.sum ≤ (List.zipWith (· * ·) w c).sum ∧ (List.zipWith (· * ·) w c).sum ≤ hi * w.sum := by
    intro c
    induction c with
    | nil => intro w hl _ _; cases w <;> simp_all
    | cons a t ih =>
      intro w hl hw hc
      cases w with
      | nil => simp at hl
      | cons b u =>
        have hb : 0 ≤ b := hw b (List.mem_cons_self ..)
        have ha := hc a (List.mem_cons_self ..)
        have := ih u (by simpa using hl) (fun v hv => hw v (List.mem_cons_of_mem _ hv))
          (fun v hv => hc v (List.mem_cons_of_mem _ hv))
        simp only [List.zipWith_cons_cons, List.sum_cons]
        constructor
        · nlinarith [this.1, mul_le_mul_of_nonneg_left ha.1 hb]
        · nlinarith [this.2, mul_le_mul_of_nonneg_left ha.2 hb]
  have := key c w hlen hw hc
  rw [hsum] at this
  simpa using this

/-! ### pump curve -/

theorem pump_nonneg (regPar : List Rat) (v : Rat) : 0 ≤ pumpPressure regPar v := by
  unfold pumpPressure; split_ifs
  · exact le_refl 0
  · exact le_max_left _ _

theorem pump_zero_reverse (regPar : List Rat) (v : Rat) (h : v < 0) : pumpPressure regPar v = 0 := by
  unfold pumpPressure; simp [h]

theorem pump_follows_polynomial (regPar : List Rat) (v : Rat) (h : 0 ≤ v) (hp : 0 ≤ polyEval regPar (v * 3600)) :
    pumpPressure regPar v = polyEval regPar (v * 3600) := by
  unfold pumpPressure
  have : ¬ v < 0 := not_lt.2 h
  simp [this, hp]

/-- non-vacuity: water's density at 275 K lies on the first segment of its table -/
example : interp water.density 275 = (999.9 : Rat) + (999.97 - 999.9) * (275 - 274) / (277 - 274) := by decide +kernel

end PPV.Props.C19
