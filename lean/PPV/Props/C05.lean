/-
  C05 — a returned result is converged and finite; a failed run leaves no results.

  Model: `Model/Newton.lean` (hand-written from `newton_raphson`, `finalize_iteration`,
  `set_damping_factor` and the stage sequencing of `pipeflow`), tied to the real functions by driving
  `newton_raphson` with scripted iteration functions (exhaustive over short error patterns incl. NaN)
  and by random success/failure histories of real `pipeflow` calls.
  All theorems quantify over *every* observation stream (any errors, residuals, NaNs) and every length.
-/
import PPV.Model.Newton
import PPV.Gen.Wiring
import Mathlib.Tactic.SplitIfs
import Mathlib.Tactic.Cases
import Mathlib.Tactic.Linarith
import Mathlib.Tactic.NormNum

namespace PPV.Props.C05
open PPV.Model.Newton

/-! ### the Newton loop -/

theorem step_niter (cfg : Cfg) (s : State) (o : Obs) : (step cfg s o).niter = s.niter + 1 := by
  unfold step; split_ifs <;> rfl

/-- the iteration budget is respected -/
theorem loop_bounded (cfg : Cfg) (s : State) (obs : List Obs) :
    (runLoop cfg s obs).niter ≤ max s.niter cfg.maxIter := by
  induction obs generalizing s with
  | nil => simp [runLoop]
  | cons o rest ih =>
    unfold runLoop
    split_ifs with h
    · have h2 : s.niter < cfg.maxIter := by simp at h; exact h.2
      have := ih (step cfg s o)
      rw [step_niter] at this
      omega
    · exact le_max_left _ _

/-- what the acceptance test demands of the last observation -/
def Accepts (cfg : Cfg) (o : Obs) : Prop :=
  (∀ p ∈ List.zip o.errs cfg.tols, ∃ e t : Rat, p.1 = .val e ∧ p.2 = .val t ∧ e ≤ t) ∧
  (∃ r t : Rat, o.resid = .val r ∧ cfg.tolRes = .val t ∧ r ≤ t)

theorem XR.le_spec (a b : XR) : XR.le a b = true ↔ ∃ x y : Rat, a = .val x ∧ b = .val y ∧ x ≤ y := by
  cases a <;> cases b <;> simp [XR.le]

theorem withinTol_spec (cfg : Cfg) (o : Obs) : withinTol cfg o = true ↔ Accepts cfg o := by
  unfold withinTol Accepts
  rw [Bool.and_eq_true, XR.le_spec]
  constructor
  · rintro ⟨h1, h2⟩
    refine ⟨?_, h2⟩
    intro p hp
    rw [List.all_eq_true] at h1
    exact (XR.le_spec _ _).1 (h1 p hp)
  · rintro ⟨h1, h2⟩
    refine ⟨?_, h2⟩
    rw [List.all_eq_true]
    intro p hp
    exact (XR.le_spec _ _).2 (h1 p hp)

/-- invariant: whenever the converged flag is set, the last executed iteration passed the tolerance test
    and (automatic damping) the damping factor chosen for the next step is 1 -/
def Inv (cfg : Cfg) (s : State) : Prop :=
  s.converged = true → ∃ o, s.lastObs = some o ∧ Accepts cfg o ∧ (cfg.automatic = true → s.alpha = 1)

theorem step_inv (cfg : Cfg) (s : State) (o : Obs) : Inv cfg (step cfg s o) := by
  unfold Inv step
  by_cases ha : cfg.automatic = true
  · simp only [ha, if_true]
    by_cases hne : newAlpha s.alpha (increased s.prevErrs o.errs) = 1
    · simp only [hne, ne_eq, not_true_eq_false, if_false]
      intro h
      exact ⟨o, rfl, (withinTol_spec cfg o).1 h, fun _ => trivial⟩
    · simp only [ne_eq, hne, not_false_eq_true, if_true]
      intro h; cases h
  · simp only [ha, if_false]
    intro h
    exact ⟨o, rfl, (withinTol_spec cfg o).1 h, fun h' => absurd h' (by simp)⟩

theorem loop_inv (cfg : Cfg) (s : State) (obs : List Obs) (h : Inv cfg s) : Inv cfg (runLoop cfg s obs) := by
  induction obs generalizing s with
  | nil => simpa [runLoop] using h
  | cons o rest ih =>
    unfold runLoop
    split_ifs
    · exact ih _ (step_inv cfg s o)
    · exact h

/-- **C05 (loop soundness, provable part).** If the loop ends with the converged flag set, then in its last
    iteration every error was a number within its tolerance, the residual norm was a number within
    `tol_res`, and with automatic damping the damping factor *selected after that iteration* is 1.
    (The full statement of the property additionally demands that the accepted step itself was undamped and
    not partially rejected — that is false of the code, see the two witnesses below.) -/
theorem loop_converged_sound_partial (cfg : Cfg) (obs : List Obs) (h : (runLoop cfg {} obs).converged = true) :
    ∃ o, (runLoop cfg {} obs).lastObs = some o ∧ Accepts cfg o ∧
      (cfg.automatic = true → (runLoop cfg {} obs).alpha = 1) :=
  loop_inv cfg {} obs (by intro h0; simp at h0) h

/-- NaN anywhere in the last observation (an error of a compared variable or the residual) ⇒ not converged -/
theorem nan_never_converges (cfg : Cfg) (obs : List Obs) (o : Obs)
    (hl : (runLoop cfg {} obs).lastObs = some o)
    (hn : o.resid = .nan ∨ ∃ p ∈ List.zip o.errs cfg.tols, p.1 = .nan) :
    (runLoop cfg {} obs).converged = false := by
  by_contra hc
  have hc' : (runLoop cfg {} obs).converged = true := by simpa using hc
  obtain ⟨o', ho', hacc, _⟩ := loop_converged_sound_partial cfg obs hc'
  rw [hl] at ho'; cases ho'
  rcases hn with h | ⟨p, hp, hnan⟩
  · obtain ⟨r, t, hr, _, _⟩ := hacc.2; rw [h] at hr; cases hr
  · obtain ⟨e, t, he, _, _⟩ := hacc.1 p hp; rw [hnan] at he; cases he

/-- damping factors reachable from the default start value 1 -/
def AlphaOK (a : Rat) : Prop := a = 1 ∨ a = 1/10 ∨ a = 1/100

theorem newAlpha_range (a : Rat) (inc : List Bool) (h : AlphaOK a) : AlphaOK (newAlpha a inc) := by
  unfold newAlpha AlphaOK at *
  rcases h with h | h | h <;> subst h <;> split_ifs <;> norm_num at *

theorem step_alpha_range (cfg : Cfg) (s : State) (o : Obs) (h : AlphaOK s.alpha) : AlphaOK (step cfg s o).alpha := by
  unfold step; split_ifs
  · exact newAlpha_range _ _ h
  · exact h

/-- with the default start value the damping factor stays in {1, 0.1, 0.01} -/
theorem alpha_range (cfg : Cfg) (s : State) (obs : List Obs) (h : AlphaOK s.alpha) :
    AlphaOK (runLoop cfg s obs).alpha := by
  induction obs generalizing s with
  | nil => simpa [runLoop] using h
  | cons o rest ih =>
    unfold runLoop; split_ifs
    · exact ih _ (step_alpha_range cfg s o h)
    · exact h

/-! ### the full statement is false of the code: two machine-checked witnesses
    (both are replayed against the real `newton_raphson` by the correspondence check) -/

def cfgAuto (tols : List XR) : Cfg := { maxIter := 10, automatic := true, tols := tols, tolRes := .val (1/1000) }

/-- errors 1, 2, 1e-6 of a single variable: the third iteration is accepted although its step was taken
    with damping factor 0.1 (the code tests the factor chosen for the *next* step) -/
theorem converged_after_damped_step_witness :
    let r := runLoop (cfgAuto [.val (1/100000)]) {}
      [⟨[.val 1], .val 0⟩, ⟨[.val 2], .val 0⟩, ⟨[.val (1/1000000)], .val 0⟩]
    r.converged = true ∧ r.trace.getLast? = some (1/10, 1, [false], true) := by decide +kernel

/-- two variables, the second one's error grows from 1e-9 to 2e-9 in the accepted iteration: that variable
    is put back to its previous value while the first keeps the new one, and the iteration is accepted -/
theorem converged_with_partial_restore_witness :
    let r := runLoop (cfgAuto [.val (1/100000), .val (1/100000)]) {}
      [⟨[.val 1, .val (1/1000000000)], .val 0⟩, ⟨[.val (1/1000000), .val (2/1000000000)], .val 0⟩]
    r.converged = true ∧ r.trace.getLast? = some (1, 1, [false, true], true) := by decide +kernel

/-! ### run level: return ⇔ every stage converged; a failed run leaves nothing behind -/

/-! ### which option bounds which solver variable (generated from the stage functions of pipeflow.py) -/

/-- the tolerance option that belongs to a solver variable by its physical dimension: mass flows (also the slack
    mass flows) `tol_m`, pressures `tol_p`, temperatures `tol_T` -/
def tolOptionOf (var : String) : String :=
  if var = "mdot" ∨ var = "mdotslack" then "tol_m" else if var = "p" then "tol_p" else "tol_T"

/-- in every solver stage each variable's change is tested against the tolerance option of its own dimension
    (decided over the wiring read from the current `hydraulics / heat_transfer / bidirectional`) -/
theorem stage_tolerances_paired :
    ∀ st ∈ PPV.Gen.Wiring.stages, ∀ vt ∈ st.2.1, vt.2 = tolOptionOf vt.1 := by decide

/-- the stages solve for the documented variables and are limited by their own iteration option -/
theorem stage_variables_and_limits :
    PPV.Gen.Wiring.stages.map (fun st => (st.1, st.2.1.map Prod.fst, st.2.2)) =
      [("bidirectional", ["mdot", "p", "TOUT", "T"], "max_iter_bidirect"),
       ("hydraulics", ["mdot", "p", "mdotslack"], "max_iter_hyd"),
       ("heat_transfer", ["Tout", "T"], "max_iter_therm")] := by decide

/-- configuration of a stage's Newton loop for given option values -/
def stageCfg (opt : String → XR) (maxIter : Nat) (automatic : Bool) (pairs : List (String × String)) : Cfg :=
  { maxIter := maxIter, automatic := automatic, tols := pairs.map (fun vt => opt vt.2), tolRes := opt "tol_res" }

/-- **a converged stage meets the tolerances in force, by name**: if a stage's loop ends converged, then the last
    change of every solver variable is a number not exceeding the value of the option of its own dimension, and the
    residual does not exceed `tol_res` -/
theorem converged_stage_meets_named_tolerances (opt : String → XR) (maxIter : Nat) (automatic : Bool)
    (st : String × List (String × String) × String) (hst : st ∈ PPV.Gen.Wiring.stages) (obs : List Obs)
    (h : (runLoop (stageCfg opt maxIter automatic st.2.1) {} obs).converged = true) :
    ∃ o, (runLoop (stageCfg opt maxIter automatic st.2.1) {} obs).lastObs = some o ∧
      (∀ p ∈ List.zip o.errs (st.2.1.map Prod.fst), ∃ x y : Rat, p.1 = .val x ∧ opt (tolOptionOf p.2) = .val y ∧ x ≤ y) ∧
      XR.le o.resid (opt "tol_res") = true := by
  obtain ⟨o, ho, hacc⟩ := loop_converged_sound_partial _ obs h
  refine ⟨o, ho, ?_, ?_⟩
  · intro p hp
    obtain ⟨i, hi, rfl⟩ := List.mem_iff_getElem.1 hp
    simp only [List.length_zip, List.length_map] at hi
    have hmem : (o.errs[i]'(by omega), opt (st.2.1[i]'(by omega)).2) ∈ List.zip o.errs (stageCfg opt maxIter automatic st.2.1).tols := by
      unfold stageCfg
      rw [List.mem_iff_getElem]
      refine ⟨i, by simp; omega, by simp⟩
    obtain ⟨x, y, hx, hy, hxy⟩ := hacc.1.1 _ hmem
    refine ⟨x, y, by simpa using hx, ?_, hxy⟩
    have hpair := stage_tolerances_paired st hst (st.2.1[i]'(by omega)) (List.getElem_mem _)
    simp only [List.getElem_zip, List.getElem_map]
    rw [← hpair]; exact hy
  · exact (XR.le_spec _ _).2 hacc.1.2


theorem go_spec (stages : List StageOutcome) (c : Bool) :
    ((pipeflowRun.go stages c).2 = .returned ↔ ∀ st ∈ stages, st = .converged) ∧
    ((pipeflowRun.go stages c).2 = .notConvergedError →
        (pipeflowRun.go stages c).1 = { converged := false, resultsPresent := false }) ∧
    ((pipeflowRun.go stages c).2 = .returned → stages ≠ [] →
        (pipeflowRun.go stages c).1 = { converged := true, resultsPresent := true }) := by
  induction stages generalizing c with
  | nil => simp [pipeflowRun.go]
  | cons st rest ih =>
    cases st
    · simp only [pipeflowRun.go]
      refine ⟨?_, (ih true).2.1, ?_⟩
      · rw [(ih true).1]; simp
      · intro h _
        by_cases hr : rest = []
        · subst hr; simp [pipeflowRun.go]
        · exact (ih true).2.2 h hr
    · simp [pipeflowRun.go]
    · simp [pipeflowRun.go]

/-- `pipeflow` returns normally iff every executed stage converged -/
theorem run_returns_iff_converged (before : NetFlags) (stages : List StageOutcome) :
    (pipeflowRun before stages).2 = .returned ↔ ∀ st ∈ stages, st = .converged := by
  unfold pipeflowRun; exact (go_spec stages false).1

/-- a returned run (with at least one stage) marks the net converged and holds results -/
theorem returned_run_flags (before : NetFlags) (stages : List StageOutcome) (hs : stages ≠ [])
    (h : (pipeflowRun before stages).2 = .returned) :
    (pipeflowRun before stages).1 = { converged := true, resultsPresent := true } := by
  unfold pipeflowRun at *; exact (go_spec stages false).2.2 h hs

/-- **C05 (histories).** After any sequence of runs on one net object: if the last run raised
    `PipeflowNotConverged`, the net is marked not converged and no result table holds a number —
    whatever the earlier runs did (e.g. an earlier success). -/
theorem failed_run_clears_results (init : NetFlags) (runs : List (List StageOutcome)) (last : List StageOutcome)
    (h : (pipeflowRun (history init runs).1 last).2 = .notConvergedError) :
    (history init (runs ++ [last])).1 = { converged := false, resultsPresent := false } ∧
    (history init (runs ++ [last])).2.getLast? = some .notConvergedError := by
  unfold history at *
  simp only [List.foldl_append, List.foldl_cons, List.foldl_nil]
  constructor
  · unfold pipeflowRun at *; exact (go_spec last false).2.1 h
  · simp [h]

/-- non-vacuity: a history "success, then failure" satisfies the hypothesis -/
example : (pipeflowRun (history ⟨false, false⟩ [[.converged]]).1 [.converged, .notConverged]).2 = .notConvergedError := by
  decide

end PPV.Props.C05
