/-
  C14 — options resolve by the documented precedence: call > user options > defaults.

  Model: `Model/Options.lean` (hand-written from `init_options`, `_iteration_check`, `_mode_check`; tied to
  the code by an exhaustive correspondence over every key and presence pattern) and the generated
  tables `Gen/DefaultOptions.lean` (`default_options` and the documented defaults, re-read from the
  source on every run).  Layers are python dicts: association lists without duplicate keys.
-/
import PPV.Model.Options
import PPV.Gen.DefaultOptions
import Mathlib.Tactic.SplitIfs
import Mathlib.Tactic.Cases
import Mathlib.Data.List.Nodup

namespace PPV.Props.C14
open PPV.Model.Options

/-- a python dict has unique keys -/
def IsDict (l : Layer) : Prop := (l.map Prod.fst).Nodup

/-- first non-`none` of two optional values (precedence) -/
def orElse' {α} (a b : Option α) : Option α := match a with | some v => some v | none => b
infixr:60 " ▸▸ " => orElse'

theorem dget_dput_self (l : Layer) (k : String) (v : OptVal) : dget (dput l k v) k = some v := by
  induction l with
  | nil => simp [dput, dget]
  | cons p t ih =>
    obtain ⟨k', v'⟩ := p
    simp only [dput]
    split_ifs with h
    · simp [dget]
    · simp [dget, h, ih]

theorem dget_dput_ne (l : Layer) (k k' : String) (v : OptVal) (h : k' ≠ k) :
    dget (dput l k v) k' = dget l k' := by
  induction l with
  | nil => simp [dput, dget, h.symm]
  | cons p t ih =>
    obtain ⟨k0, v0⟩ := p
    simp only [dput]
    split_ifs with h0
    · subst h0; simp [dget, h.symm]
    · simp only [dget]; split_ifs <;> simp_all

theorem dget_ddel (l : Layer) (k k' : String) :
    dget (ddel l k) k' = if k' = k then none else dget l k' := by
  induction l with
  | nil => simp [ddel, dget]
  | cons p t ih =>
    obtain ⟨k0, v0⟩ := p
    unfold ddel at ih ⊢
    by_cases h0 : k0 = k
    · subst h0
      simp only [List.filter, bne_self_eq_false, ih, dget]
      split_ifs <;> simp_all
    · have : ((k0, v0).1 != k) = true := by simpa using h0
      simp only [List.filter, this, dget, ih]
      split_ifs <;> simp_all

theorem dget_none_of_not_mem (l : Layer) (k : String) (h : k ∉ l.map Prod.fst) : dget l k = none := by
  induction l with
  | nil => rfl
  | cons p t ih =>
    obtain ⟨k0, v0⟩ := p
    simp only [List.map_cons, List.mem_cons, not_or] at h
    simp only [dget]; rw [if_neg (Ne.symm h.1)]; exact ih h.2

theorem dget_foldl_dput (b : Layer) (hb : IsDict b) (a : Layer) (k : String) :
    dget (b.foldl (fun acc p => dput acc p.1 p.2) a) k = (dget b k) ▸▸ (dget a k) := by
  induction b generalizing a with
  | nil => simp [dget, orElse']
  | cons p t ih =>
    obtain ⟨k0, v0⟩ := p
    have ht : IsDict t := (List.nodup_cons.1 hb).2
    have hk0 : k0 ∉ t.map Prod.fst := (List.nodup_cons.1 hb).1
    simp only [List.foldl_cons, ih ht, dget]
    by_cases h : k0 = k
    · subst h
      rw [dget_none_of_not_mem t k0 hk0, dget_dput_self]; simp [orElse']
    · rw [if_neg h, dget_dput_ne _ _ _ _ (Ne.symm h)]

/-- `{**a, **b}`: b wins -/
theorem dget_dmerge (a b : Layer) (hb : IsDict b) (k : String) :
    dget (dmerge a b) k = (dget b k) ▸▸ (dget a k) := dget_foldl_dput b hb a k

/-! ### `_iteration_check` -/

theorem iterationCheck_other (o : Layer) (k : String) (hk : k ∉ stageKeys) :
    dget (iterationCheck o) k = dget o k := by
  unfold iterationCheck
  split_ifs
  · rfl
  · split
    · rfl
    · rfl
    · rename_i n _ _
      have : ∀ (ks : List String) (acc : Layer), k ∉ ks →
          dget (ks.foldl (fun acc key => if (dget acc key).isSome then acc else dput acc key n) acc) k = dget acc k := by
        intro ks; induction ks with
        | nil => intro acc _; rfl
        | cons key t ih =>
          intro acc hmem
          simp only [List.mem_cons, not_or] at hmem
          simp only [List.foldl_cons]; rw [ih _ hmem.2]
          split_ifs
          · rfl
          · exact dget_dput_ne _ _ _ _ hmem.1
      exact this stageKeys o hk

/-- the value of the shorthand within one layer: `iter` unless absent or `None` -/
def iterOf (o : Layer) : Option OptVal :=
  match dget o "iter" with
  | some .none => none
  | x => x

theorem iterationCheck_stage (o : Layer) (k : String) (hk : k ∈ stageKeys) :
    dget (iterationCheck o) k = (dget o k) ▸▸ (iterOf o) := by
  unfold iterationCheck iterOf
  by_cases he : o.isEmpty
  · have : o = [] := List.isEmpty_iff.1 he
    subst this; simp [dget, orElse']
  · simp only [he]
    have key : ∀ n, ∀ (ks : List String) (acc : Layer), ks.Nodup → k ∈ ks →
        dget (ks.foldl (fun acc key => if (dget acc key).isSome then acc else dput acc key n) acc) k
          = (dget acc k) ▸▸ some n := by
      intro n ks; induction ks with
      | nil => intro acc _ h; cases h
      | cons key t ih =>
        intro acc hnd hmem
        have hnd' := List.nodup_cons.1 hnd
        simp only [List.foldl_cons]
        by_cases hkk : k = key
        · subst hkk
          -- the remaining keys do not touch k
          have rest : ∀ (ks : List String) (acc : Layer), k ∉ ks →
              dget (ks.foldl (fun acc key => if (dget acc key).isSome then acc else dput acc key n) acc) k = dget acc k := by
            intro ks; induction ks with
            | nil => intro acc _; rfl
            | cons key t ih2 =>
              intro acc hm
              simp only [List.mem_cons, not_or] at hm
              simp only [List.foldl_cons]; rw [ih2 _ hm.2]
              split_ifs
              · rfl
              · exact dget_dput_ne _ _ _ _ hm.1
          rw [rest t _ hnd'.1]
          split_ifs with hs
          · obtain ⟨v, hv⟩ := Option.isSome_iff_exists.1 hs; simp [hv, orElse']
          · have : dget acc k = none := by simpa using hs
            rw [dget_dput_self, this]; rfl
        · have hm : k ∈ t := by
            rcases List.mem_cons.1 hmem with h | h
            · exact absurd h hkk
            · exact h
          rw [ih _ hnd'.2 hm]
          split_ifs
          · rfl
          · rw [dget_dput_ne _ _ _ _ hkk]
    cases hl : dget o "iter" with
    | none => simp [orElse']; cases dget o k <;> rfl
    | some v =>
      cases v with
      | none => simp [orElse']; cases dget o k <;> rfl
      | b x => simpa using key (.b x) stageKeys o (by decide) hk
      | i x => simpa using key (.i x) stageKeys o (by decide) hk
      | f x => simpa using key (.f x) stageKeys o (by decide) hk
      | s x => simpa using key (.s x) stageKeys o (by decide) hk

/-- `_iteration_check` keeps a dict a dict -/
theorem dput_isDict (l : Layer) (k : String) (v : OptVal) (h : IsDict l) : IsDict (dput l k v) := by
  unfold IsDict at *
  induction l with
  | nil => simp [dput]
  | cons p t ih =>
    obtain ⟨k0, v0⟩ := p
    simp only [dput]
    split_ifs with h0
    · subst h0; simpa using h
    · have hn := List.nodup_cons.1 h
      simp only [List.map_cons, List.nodup_cons]
      refine ⟨?_, ih hn.2⟩
      intro hmem
      -- keys of `dput t k v` are keys of t plus k
      have : ∀ (t : Layer), k0 ∈ (dput t k v).map Prod.fst → k0 ∈ t.map Prod.fst ∨ k0 = k := by
        intro t; induction t with
        | nil => intro h; simp [dput] at h; exact Or.inr h
        | cons q t iht =>
          obtain ⟨k1, v1⟩ := q
          simp only [dput]
          split_ifs with h1
          · intro h; simp at h; rcases h with h | h
            · exact Or.inr h
            · exact Or.inl (by simp; right; exact h)
          · intro h; simp at h; rcases h with h | h
            · exact Or.inl (by simp [h])
            · rcases iht (by simpa using h) with h | h
              · exact Or.inl (by simp at h ⊢; right; exact h)
              · exact Or.inr h
      rcases this t hmem with h1 | h1
      · exact hn.1 h1
      · exact h0 h1

theorem iterationCheck_isDict (o : Layer) (h : IsDict o) : IsDict (iterationCheck o) := by
  unfold iterationCheck
  split_ifs
  · exact h
  · split
    · exact h
    · exact h
    · rename_i n _ _
      have : ∀ (ks : List String) (acc : Layer), IsDict acc →
          IsDict (ks.foldl (fun acc key => if (dget acc key).isSome then acc else dput acc key n) acc) := by
        intro ks; induction ks with
        | nil => intro acc h; exact h
        | cons key t ih =>
          intro acc hacc
          simp only [List.foldl_cons]
          apply ih
          split_ifs
          · exact hacc
          · exact dput_isDict _ _ _ hacc
      exact this stageKeys o h

/-! ### `init_options` -/

/-- keys whose final value is not plain precedence (documented couplings / dropped keys) -/
def coupled : List String :=
  ["reuse_internal_data", "use_numba", "fluid", "mode", "interactive_plotting", "t_start"] ++ stageKeys

theorem dget_merged (d u kw : Layer) (hu : IsDict u) (hk : IsDict kw) (k : String) :
    dget (merged d u kw) k
      = (dget (iterationCheck kw) k) ▸▸ (dget (iterationCheck u) k) ▸▸ (dget d k) := by
  unfold merged
  rw [dget_dmerge _ _ (iterationCheck_isDict kw hk), dget_dmerge _ _ (iterationCheck_isDict u hu)]

theorem dget_dropExcluded (o : Layer) (k : String) (h5 : k ≠ "interactive_plotting") (h6 : k ≠ "t_start") :
    dget (dropExcluded o) k = dget o k := by
  unfold dropExcluded; rw [dget_ddel, if_neg h6, dget_ddel, if_neg h5]

theorem dget_stepReuse (o : Layer) (k : String) (h : k ≠ "reuse_internal_data") : dget (stepReuse o) k = dget o k := by
  unfold stepReuse; split_ifs
  · rfl
  · exact dget_dput_ne _ _ _ _ h

theorem dget_stepNumba (nb : Bool) (o : Layer) (k : String) (h : k ≠ "use_numba") : dget (stepNumba nb o) k = dget o k := by
  unfold stepNumba; split_ifs
  · rfl
  · exact dget_dput_ne _ _ _ _ h

theorem dget_modeCheck (o : Layer) (k : String) (h : k ≠ "mode") : dget (modeCheck o) k = dget o k := by
  unfold modeCheck; split_ifs
  · exact dget_dput_ne _ _ _ _ h
  · rfl

/-- a key outside the six coupled names passes through all post-processing steps -/
theorem dget_init_passthrough (d u kw : Layer) (nb : Bool) (fl : String) (k : String)
    (h1 : k ≠ "reuse_internal_data") (h2 : k ≠ "use_numba") (h3 : k ≠ "fluid") (h4 : k ≠ "mode")
    (h5 : k ≠ "interactive_plotting") (h6 : k ≠ "t_start") :
    dget (initOptions d u kw nb fl) k = dget (merged d u kw) k := by
  unfold initOptions
  rw [dget_modeCheck _ _ h4, dget_dput_ne _ _ _ _ h3, dget_stepNumba _ _ _ h2, dget_stepReuse _ _ h1,
    dget_dropExcluded _ _ h5 h6]

/-- **C14, precedence.**  For every key outside the documented couplings the value in force is the call
    argument if given, else the stored user option, else the default; a key no layer has stays absent
    (unknown keys are carried through without touching known ones). -/
theorem resolve_precedence (d u kw : Layer) (hu : IsDict u) (hk : IsDict kw) (nb : Bool) (fl : String)
    (k : String) (hc : k ∉ coupled) :
    dget (initOptions d u kw nb fl) k = (dget kw k) ▸▸ (dget u k) ▸▸ (dget d k) := by
  have hst : k ∉ stageKeys := fun h => hc (List.mem_append_right _ h)
  simp only [coupled, List.cons_append, List.nil_append, List.mem_cons, not_or] at hc
  obtain ⟨h1, h2, h3, h4, h5, h6, _⟩ := hc
  rw [dget_init_passthrough d u kw nb fl k h1 h2 h3 h4 h5 h6, dget_merged d u kw hu hk,
    iterationCheck_other kw k hst, iterationCheck_other u k hst]

/-- **C14, `iter`.**  A stage limit is: the call's own stage key, else the call's `iter`, else the
    user layer's stage key, else the user layer's `iter`, else the default — `iter` never overrides an
    explicit stage key of its own layer, and a call-level `iter` beats user-level stage keys. -/
theorem resolve_stage_limit (d u kw : Layer) (hu : IsDict u) (hk : IsDict kw) (nb : Bool) (fl : String)
    (k : String) (hs : k ∈ stageKeys) :
    dget (initOptions d u kw nb fl) k
      = (dget kw k) ▸▸ (iterOf kw) ▸▸ (dget u k) ▸▸ (iterOf u) ▸▸ (dget d k) := by
  have hne : ∀ s ∈ ["reuse_internal_data", "use_numba", "fluid", "mode", "interactive_plotting", "t_start"], k ≠ s := by
    intro s hs2; simp only [stageKeys, List.mem_cons, List.not_mem_nil, or_false] at hs hs2
    rcases hs with h | h | h <;> rcases hs2 with g | g | g | g | g | g <;> subst h <;> subst g <;> decide
  rw [dget_init_passthrough d u kw nb fl k (hne _ (by simp)) (hne _ (by simp)) (hne _ (by simp)) (hne _ (by simp))
      (hne _ (by simp)) (hne _ (by simp)), dget_merged d u kw hu hk,
    iterationCheck_stage kw k hs, iterationCheck_stage u k hs]
  cases dget kw k <;> cases iterOf kw <;> cases dget u k <;> cases iterOf u <;> rfl

/-- **C14, couplings.** `fluid` is always the net's fluid; without numba `use_numba` is false; the
    deprecated mode `"all"` never survives; the two plotting keys are dropped. -/
theorem coupling_fluid (d u kw : Layer) (nb : Bool) (fl : String) :
    dget (initOptions d u kw nb fl) "fluid" = some (.s fl) := by
  unfold initOptions
  rw [dget_modeCheck _ _ (by decide), dget_dput_self]

theorem coupling_numba (d u kw : Layer) (fl : String) :
    dget (initOptions d u kw false fl) "use_numba" = some (.b false) := by
  unfold initOptions
  rw [dget_modeCheck _ _ (by decide), dget_dput_ne _ _ _ _ (by decide)]
  simp [stepNumba, dget_dput_self]

theorem coupling_mode_all (d u kw : Layer) (nb : Bool) (fl : String) :
    dget (initOptions d u kw nb fl) "mode" ≠ some (.s "all") := by
  unfold initOptions modeCheck
  split_ifs with h
  · simp [dget_dput_self]
  · exact h

/-- the deprecated name maps to `sequential`, every other mode is plain precedence -/
theorem coupling_mode_value (d u kw : Layer) (hu : IsDict u) (hk : IsDict kw) (nb : Bool) (fl : String) :
    dget (initOptions d u kw nb fl) "mode" =
      (if ((dget kw "mode") ▸▸ (dget u "mode") ▸▸ (dget d "mode")) = some (.s "all") then some (.s "sequential")
       else (dget kw "mode") ▸▸ (dget u "mode") ▸▸ (dget d "mode")) := by
  have hm : dget (dput (stepNumba nb (stepReuse (dropExcluded (merged d u kw)))) "fluid" (.s fl)) "mode"
      = (dget kw "mode") ▸▸ (dget u "mode") ▸▸ (dget d "mode") := by
    rw [dget_dput_ne _ _ _ _ (by decide), dget_stepNumba _ _ _ (by decide), dget_stepReuse _ _ (by decide),
      dget_dropExcluded _ _ (by decide) (by decide), dget_merged d u kw hu hk,
      iterationCheck_other kw _ (by decide), iterationCheck_other u _ (by decide)]
  unfold initOptions modeCheck
  rw [hm]
  split_ifs with h
  · exact dget_dput_self _ _ _
  · exact hm

theorem excluded_keys_dropped (d u kw : Layer) (nb : Bool) (fl : String) :
    dget (initOptions d u kw nb fl) "t_start" = none ∧
    dget (initOptions d u kw nb fl) "interactive_plotting" = none := by
  unfold initOptions
  constructor
  · rw [dget_modeCheck _ _ (by decide), dget_dput_ne _ _ _ _ (by decide), dget_stepNumba _ _ _ (by decide),
      dget_stepReuse _ _ (by decide)]
    unfold dropExcluded; rw [dget_ddel]; simp
  · rw [dget_modeCheck _ _ (by decide), dget_dput_ne _ _ _ _ (by decide), dget_stepNumba _ _ _ (by decide),
      dget_stepReuse _ _ (by decide)]
    unfold dropExcluded; rw [dget_ddel, if_neg (by decide), dget_ddel]; simp

/-- **C14, reuse coupling.** Internal data is reused only together with the matrix-update option. -/
theorem coupling_reuse (d u kw : Layer) (nb : Bool) (fl : String)
    (h : ((dget (initOptions d u kw nb fl) "only_update_hydraulic_matrix").getD .none).truthy = false) :
    dget (initOptions d u kw nb fl) "reuse_internal_data" = some (.b false) := by
  have hupd : dget (initOptions d u kw nb fl) "only_update_hydraulic_matrix"
      = dget (dropExcluded (merged d u kw)) "only_update_hydraulic_matrix" := by
    unfold initOptions
    rw [dget_modeCheck _ _ (by decide), dget_dput_ne _ _ _ _ (by decide), dget_stepNumba _ _ _ (by decide),
      dget_stepReuse _ _ (by decide)]
  rw [hupd] at h
  unfold initOptions
  rw [dget_modeCheck _ _ (by decide), dget_dput_ne _ _ _ _ (by decide), dget_stepNumba _ _ _ (by decide)]
  unfold stepReuse
  rw [h]
  simp [dget_dput_self]

/-- **C14, documented defaults.**  Every default stated in the documentation is the default in force
    (both tables are regenerated from the source on every run). -/
theorem defaults_eq_documented :
    PPV.Gen.DefaultOptions.documented.all
      (fun p => dget PPV.Gen.DefaultOptions.defaults p.1 == some p.2) = true := by decide

/-- the shipped defaults are a dict, and so is what `init_options` is fed in the non-vacuity example -/
theorem defaults_isDict : IsDict PPV.Gen.DefaultOptions.defaults := by unfold IsDict; decide

example : IsDict [("iter", .i 3), ("max_iter_hyd", .i 7)] ∧
    dget (initOptions PPV.Gen.DefaultOptions.defaults [("iter", .i 3), ("max_iter_hyd", .i 7)] [("iter", .i 5)] true "water")
      "max_iter_therm" = some (.i 5) := by
  constructor
  · unfold IsDict; decide
  · decide

end PPV.Props.C14
