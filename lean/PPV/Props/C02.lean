/-
  C02 — every flowing branch obeys the documented pressure-loss law.

  `Spec` below transcribes `doc/source/components/pipe/pipe_component.rst`; the theorems state that
  the residual the *generated* kernels (current source of pf/derivative_toolbox.py) compute is exactly
  "pressure difference + lift + documented loss", for all parameter values.  Constants
  (`GRAVITATION_CONSTANT`, `P_CONVERSION`, `NORMAL_PRESSURE`, `NORMAL_TEMPERATURE`) are generated from
  constants.py, so a changed constant breaks these theorems.
-/
import PPV.Lemmas.KTac
import PPV.Gen.Kernels

namespace PPV.Props.C02
open PPV PPV.Gen PPV.Gen.Kernels

/-! ### Spec: the documented laws -/

/-- documented loss of an incompressible medium, in Pa (`p_loss = ρ g Δh − ρ λ l v²/(2d) − ζ ρ v²/2`,
    with `v²` read as `v·|v|` so that the loss opposes the flow) -/
noncomputable def docLossPa (rho g dh lam l d zeta v : ℝ) : ℝ :=
  rho * g * dh - rho * lam * l * (v * |v|) / (2 * d) - zeta * rho * (v * |v|) / 2

/-- documented differential law of a compressible medium integrated over a section at mean pressure
    `pm` and temperature `T`, in Pa: `λ·(ρ_N v_N²/(2d))·(p_N/pm)·(T/T_N)·K·l` plus the lumped `ζ` term -/
noncomputable def docGasLossPa (rhoN vN lam l d zeta pN pm T TN K : ℝ) : ℝ :=
  (lam * l / d + zeta) * (rhoN * (vN * |vN|) / 2) * (pN / pm) * (T / TN) * K

/-! ### Theorems about the generated kernels -/

/-- liquids, numpy kernel: residual = `p_from,abs − p_to,abs + PL + documented loss / 1e5` -/
theorem incomp_matches_doc (b : BranchRow ℝ) (dl p p1 dh rho : ℝ) (hrho : 0 < rho) (hA : 0 < b.AREA)
    (hD : b.D ≠ 0) :
    (hydIncompNp b dl p p1 dh rho).load_vec
      = p - p1 + b.PL + docLossPa rho 9.81 dh b.LAMBDA b.LENGTH b.D b.LOSS_COEFFICIENT
          (b.MDOTINIT / (rho * b.AREA)) / 100000 := by
  simp only [hydIncompNp, docLossPa, Constants.GRAVITATION_CONSTANT, Constants.P_CONVERSION]
  kunfold
  have hv : |b.MDOTINIT / (rho * b.AREA)| = |b.MDOTINIT| / (rho * b.AREA) := by
    rw [abs_div, abs_of_pos (mul_pos hrho hA)]
  rw [hv]
  have h1 : rho ≠ 0 := ne_of_gt hrho
  have h2 : b.AREA ≠ 0 := ne_of_gt hA
  norm_num only
  field_simp
  ring

/-- the friction-loss result column is exactly the friction part of that law -/
theorem incomp_frict_loss (b : BranchRow ℝ) (dl p p1 dh rho : ℝ) :
    (hydIncompNp b dl p p1 dh rho).load_vec
      = p - p1 + b.PL + rho * 9.81 * dh / 100000 - (hydIncompNp b dl p p1 dh rho).dp_frict_loss := by
  simp only [hydIncompNp, Constants.GRAVITATION_CONSTANT, Constants.P_CONVERSION]
  kunfold
  norm_num only

/-- gases, numpy kernel: residual = `p_from,abs − p_to,abs + PL + ρ g Δh/1e5 −` documented real-gas loss
    evaluated at the arithmetic mean of the end pressures, which is the integrated form
    `(p₁² − p₂²)/2 = …` of the documented differential law -/
theorem comp_matches_doc (b : BranchRow ℝ) (nf : NodeRow ℝ) (lam dl p p1 dh K dK dK1 rho rhoN : ℝ)
    (hrhoN : 0 < rhoN) (hA : 0 < b.AREA) (hD : b.D ≠ 0) (hp : p + p1 ≠ 0) :
    (hydCompNp b nf lam dl p p1 dh K dK dK1 rho rhoN).load_vec
      = p - p1 + b.PL + rho * 9.81 * dh / 100000
        - docGasLossPa rhoN (b.MDOTINIT / (rhoN * b.AREA)) lam b.LENGTH b.D b.LOSS_COEFFICIENT
            (1.01325 * 100000) (((p + p1) / 2) * 100000) ((nf.TINIT + b.TOUTINIT) / 2) 273.15 K / 100000 := by
  simp only [hydCompNp, docGasLossPa, Constants.GRAVITATION_CONSTANT, Constants.P_CONVERSION,
    Constants.NORMAL_PRESSURE, Constants.NORMAL_TEMPERATURE]
  kunfold
  have hv : |b.MDOTINIT / (rhoN * b.AREA)| = |b.MDOTINIT| / (rhoN * b.AREA) := by
    rw [abs_div, abs_of_pos (mul_pos hrhoN hA)]
  rw [hv]
  have h1 : rhoN ≠ 0 := ne_of_gt hrhoN
  have h2 : b.AREA ≠ 0 := ne_of_gt hA
  norm_num only
  field_simp
  ring

/-- integrated form: for `p₁ + p₂ ≠ 0`, `p₁ − p₂ = C / ((p₁+p₂)/2)`  iff  `(p₁² − p₂²)/2 = C` -/
theorem integrated_form (p p1 C : ℝ) (hp : p + p1 ≠ 0) :
    p - p1 = C / ((p + p1) / 2) ↔ (p ^ 2 - p1 ^ 2) / 2 = C := by
  constructor
  · intro h
    have : (p - p1) * ((p + p1) / 2) = C := by rw [h]; field_simp
    linarith [this, show (p ^ 2 - p1 ^ 2) / 2 = (p - p1) * ((p + p1) / 2) by ring]
  · intro h
    rw [← h]; field_simp; ring

/-- mean pressure used for gas properties: `p_m = ⅔ (p₁³ − p₂³)/(p₁² − p₂²)` when the ends differ, else `p₁` -/
theorem mean_pressure_formula (p p1 : ℝ) :
    (mediumPressureNp p p1).p_m = if p = p1 then p else 2 / 3 * (p ^ 3 - p1 ^ 3) / (p ^ 2 - p1 ^ 2) := by
  simp only [mediumPressureNp]
  kunfold
  by_cases h : p = p1
  · simp [h]
  · simp only [h, if_false, not_false_eq_true, if_true]
    norm_num only
    ring

/-- the mean pressure lies between the end pressures (positive absolute pressures) -/
theorem mean_pressure_between (p p1 : ℝ) (hp : 0 < p) (hp1 : 0 < p1) (hlt : p1 < p) :
    p1 < 2 / 3 * (p ^ 3 - p1 ^ 3) / (p ^ 2 - p1 ^ 2) ∧ 2 / 3 * (p ^ 3 - p1 ^ 3) / (p ^ 2 - p1 ^ 2) < p := by
  have hd : 0 < p ^ 2 - p1 ^ 2 := by nlinarith
  constructor
  · rw [lt_div_iff₀ hd]; nlinarith [mul_pos hp hp1, sq_nonneg (p - p1), mul_pos (sub_pos.2 hlt) hp]
  · rw [div_lt_iff₀ hd]; nlinarith [mul_pos hp hp1, sq_nonneg (p - p1), mul_pos (sub_pos.2 hlt) hp1]

/-- Reynolds number and laminar friction factor (liquids): `Re = |ṁ| d /(η A)`, `λ_lam = 64/Re` for flowing
    branches and `0` at rest -/
theorem reynolds_and_laminar (m d k eta area : ℝ) :
    (lambdaIncompNp m d k eta area).re = |m| * d / (eta * area) ∧
    (lambdaIncompNp m d k eta area).lambda_laminar
      = if |(|m| * d / (eta * area)) - 0| ≤ 1e-8 + 1e-5 * |(0:ℝ)| then 0 else 64 / (|m| * d / (eta * area)) := by
  simp only [lambdaIncompNp]
  kunfold
  exact ⟨trivial, trivial⟩

/-- Nikuradse (rough pipe) friction factor, liquids: `1/(2·log₁₀(3.71 d/k))²` -/
theorem nikuradse_doc_incomp (m d k eta area : ℝ) (hd : 0 < d) (hk : 0 < k) :
    (lambdaIncompNp m d k eta area).lambda_nikuradse = 1 / (2 * Real.logb 10 (3.71 * d / k)) ^ 2 := by
  simp only [lambdaIncompNp]
  kunfold
  have h : Real.logb 10 (k / (3.71 * d)) = - Real.logb 10 (3.71 * d / k) := by
    rw [← Real.logb_inv]; congr 1; field_simp
  rw [h]; ring

/-- Nikuradse friction factor, gases: `1/(2·log₁₀(d/k) + 1.14)²` -/
theorem nikuradse_doc_comp (m d k eta area : ℝ) :
    (lambdaCompNp m d k eta area).lambda_nikuradse = 1 / (2 * Real.logb 10 (d / k) + 1.14) ^ 2 := by
  simp only [lambdaCompNp]
  kunfold
  ring

/-- absolute pressures and height difference handed to the kernels -/
theorem derived_values_doc (nf nt : NodeRow ℝ) :
    (derivedValuesNp nf nt).p_init_i_abs = nf.PINIT + nf.PAMB ∧ (derivedValuesNp nf nt).p_init_i1_abs = nt.PINIT + nt.PAMB ∧
    (derivedValuesNp nf nt).height_difference = nf.HEIGHT - nt.HEIGHT := by
  simp only [derivedValuesNp]; exact ⟨trivial, trivial, trivial⟩

/-! ### gas post-processing (`pf/result_extraction.py:get_branch_results_gas`, generated) -/

/-- fluid temperature at the declared from-end / to-end of a branch row: the inlet node's temperature at the end where the
    gas enters, the branch outlet temperature `TOUTINIT` at the end where it leaves (`FROM_NODE_T_SWITCHED` marks flow
    against the declared direction) -/
noncomputable def endTFrom (b : BranchRow ℝ) (nf : NodeRow ℝ) : ℝ := if b.FROM_NODE_T_SWITCHED ≠ 0 then b.TOUTINIT else nf.TINIT
noncomputable def endTTo (b : BranchRow ℝ) (nt : NodeRow ℝ) : ℝ := if b.FROM_NODE_T_SWITCHED ≠ 0 then nt.TINIT else b.TOUTINIT

/-- norm factors: `p_N·T·K(p,T)/(T_N·p)` evaluated with the absolute pressure *and the fluid temperature of the same end*,
    whichever way the gas flows; gas velocities are the norm velocity times that factor.  (False of the code before
    `fix: gas norm factors with reverse flow`: it paired the from-end pressure with the to-end temperature.) -/
theorem gas_normfactors_doc (b : BranchRow ℝ) (nf nt : NodeRow ℝ) (Z : ℝ → ℝ → ℝ) (v pf pt : ℝ) :
    let x := gasResultsNp b nf nt Z v pf pt
    x.p_abs_from = nf.PAMB + pf ∧ x.p_abs_to = nt.PAMB + pt ∧
    x.normfactor_from = 1.01325 * endTFrom b nf / 273.15 * Z (nf.PAMB + pf) (endTFrom b nf) / (nf.PAMB + pf) ∧
    x.normfactor_to = 1.01325 * endTTo b nt / 273.15 * Z (nt.PAMB + pt) (endTTo b nt) / (nt.PAMB + pt) ∧
    x.v_gas_from = v * x.normfactor_from ∧ x.v_gas_to = v * x.normfactor_to ∧ x.v_gas_mean = v * x.normfactor_mean := by
  simp only [gasResultsNp, endTFrom, endTTo, Constants.NORMAL_PRESSURE, Constants.NORMAL_TEMPERATURE]
  kunfold
  refine ⟨trivial, trivial, ?_, ?_, trivial, trivial, trivial⟩ <;>
    (by_cases hs : b.FROM_NODE_T_SWITCHED = 0 <;> simp [hs])

/-- describing a branch the other way round (ends exchanged, flow flag toggled, same outlet temperature) exchanges the two
    norm factors and keeps the mean one's temperature: the post-processing does not depend on the declared direction -/
theorem gas_normfactors_reverse (b b' : BranchRow ℝ) (nf nt : NodeRow ℝ) (Z : ℝ → ℝ → ℝ) (v pf pt : ℝ)
    (hT : b'.TOUTINIT = b.TOUTINIT) (hs : b'.FROM_NODE_T_SWITCHED ≠ 0 ↔ b.FROM_NODE_T_SWITCHED = 0) :
    (gasResultsNp b' nt nf Z v pt pf).normfactor_from = (gasResultsNp b nf nt Z v pf pt).normfactor_to ∧
    (gasResultsNp b' nt nf Z v pt pf).normfactor_to = (gasResultsNp b nf nt Z v pf pt).normfactor_from := by
  simp only [gasResultsNp]
  kunfold
  by_cases h : b.FROM_NODE_T_SWITCHED = 0
  · have h' : b'.FROM_NODE_T_SWITCHED ≠ 0 := hs.2 h
    simp [h, h', hT]
  · have h' : b'.FROM_NODE_T_SWITCHED = 0 := by
      by_contra hc; exact h (hs.1 hc)
    simp [h, h', hT]

/-- mean pressure of the gas post-processing: `2/3·(p₁³−p₂³)/(p₁²−p₂²)`, the from-end pressure when the two ends are
    numerically equal -/
theorem gas_mean_pressure_doc (b : BranchRow ℝ) (nf nt : NodeRow ℝ) (Z : ℝ → ℝ → ℝ) (v pf pt : ℝ)
    (hne : ¬ |nf.PAMB + pf - (nt.PAMB + pt)| ≤ 1e-8 + 1e-5 * |nt.PAMB + pt|) :
    (gasResultsNp b nf nt Z v pf pt).p_abs_mean =
      2 / 3 * ((nf.PAMB + pf) ^ 3 - (nt.PAMB + pt) ^ 3) / ((nf.PAMB + pf) ^ 2 - (nt.PAMB + pt) ^ 2) := by
  simp only [gasResultsNp]
  kunfold
  rw [if_neg hne]
  ring

/-! ### branch density (`properties/properties_toolbox.py:get_branch_real_density`, generated) -/

/-- gases: mean of the real-gas densities `ρ_N T_N p/(T p_N K(p,T))` at the end where the gas enters (that node's absolute
    pressure and temperature) and at the end where it leaves (that node's absolute pressure, the branch outlet temperature) -/
theorem real_density_gas_doc (b : BranchRow ℝ) (nf nt : NodeRow ℝ) (Rho : ℝ → ℝ) (Z : ℝ → ℝ → ℝ) :
    (realDensityGas b nf nt Rho Z).rho =
      (Rho 273.15 * 273.15 * (if b.FROM_NODE_T_SWITCHED ≠ 0 then nt.PINIT + nt.PAMB else nf.PINIT + nf.PAMB) /
          ((if b.FROM_NODE_T_SWITCHED ≠ 0 then nt.TINIT else nf.TINIT) * 1.01325 *
            Z (if b.FROM_NODE_T_SWITCHED ≠ 0 then nt.PINIT + nt.PAMB else nf.PINIT + nf.PAMB)
              (if b.FROM_NODE_T_SWITCHED ≠ 0 then nt.TINIT else nf.TINIT)) +
        Rho 273.15 * 273.15 * (if b.FROM_NODE_T_SWITCHED ≠ 0 then nf.PINIT + nf.PAMB else nt.PINIT + nt.PAMB) /
          (b.TOUTINIT * 1.01325 *
            Z (if b.FROM_NODE_T_SWITCHED ≠ 0 then nf.PINIT + nf.PAMB else nt.PINIT + nt.PAMB) b.TOUTINIT)) / 2 := by
  simp only [realDensityGas, Constants.NORMAL_PRESSURE, Constants.NORMAL_TEMPERATURE]
  kunfold
  by_cases hs : b.FROM_NODE_T_SWITCHED = 0 <;> simp [hs]

/-- liquids: mean of the fluid's density at the inlet temperature (in flow direction) and at the branch outlet temperature -/
theorem real_density_liquid_doc (b : BranchRow ℝ) (nf nt : NodeRow ℝ) (Rho : ℝ → ℝ) :
    (realDensityLiquid b nf nt Rho).rho =
      (Rho (if b.FROM_NODE_T_SWITCHED ≠ 0 then nt.TINIT else nf.TINIT) + Rho b.TOUTINIT) / 2 := by
  simp only [realDensityLiquid]
  kunfold

/-- non-vacuity of the hypotheses of `gas_normfactors_reverse` (flag toggled: 0 ↔ 1) and `gas_mean_pressure_doc`
    (end pressures 6.01325 and 5.01325 bar are not numerically equal) -/
example : ((1:ℝ) ≠ 0 ↔ (0:ℝ) = 0) ∧ ((0:ℝ) ≠ 0 ↔ ¬ (1:ℝ) = 0 → False) ∧
    ¬ |(1.01325:ℝ) + 5 - (1.01325 + 4)| ≤ 1e-8 + 1e-5 * |(1.01325:ℝ) + 4| := by
  refine ⟨by norm_num, by norm_num, ?_⟩
  norm_num [abs_of_pos]

/-- non-vacuity of the hypotheses of `incomp_matches_doc` / `comp_matches_doc` -/
example : ∃ (rho A D : ℝ), 0 < rho ∧ 0 < A ∧ D ≠ 0 := ⟨998, 0.00785, 0.1, by norm_num, by norm_num, by norm_num⟩

end PPV.Props.C02
