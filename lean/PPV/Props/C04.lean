/-
  C04 — exactly the supplied part of the network is calculated.

  Model: `Model/Connectivity.lean` (search from the in-service pressure-fixing nodes over in-service
  branches, directed branches passable from→to only, flow/return connectors decided afterwards;
  renumbering `cumsum − 1`), tied to `check_connectivity` (scipy's BFS included) by a correspondence over
  all 2^k flag patterns of fixed topologies plus random graphs.
  Theorems hold for every node count, branch count, topology and flag pattern.
-/
import PPV.Model.Connectivity
import Mathlib.Data.Finset.Card
import Mathlib.Data.Fintype.Card
import Mathlib.Logic.Relation
import Mathlib.Tactic.Linarith
import Mathlib.Data.List.Basic

open Finset
namespace PPV.Props.C04
open PPV.Model.Connectivity

variable {n b : ℕ}

/-! ### frontier expansion = reachability (Finset form) -/

def stepF (E : Fin n → Fin n → Prop) [DecidableRel E] (S : Finset (Fin n)) : Finset (Fin n) :=
  S ∪ univ.filter (fun v => ∃ u ∈ S, E u v)

variable (E : Fin n → Fin n → Prop) [DecidableRel E]

def it (S : Finset (Fin n)) : ℕ → Finset (Fin n)
  | 0 => S
  | k+1 => stepF E (it S k)

theorem subset_stepF (S : Finset (Fin n)) : S ⊆ stepF E S := subset_union_left

theorem subset_it (S : Finset (Fin n)) (k : ℕ) : S ⊆ it E S k := by
  induction k with
  | zero => exact Subset.refl _
  | succ k ih => exact ih.trans (subset_stepF E _)

theorem card_grows (S : Finset (Fin n)) (k : ℕ) :
    it E S (k+1) = it E S k ∨ k + 1 + S.card ≤ (it E S (k+1)).card := by
  induction k with
  | zero =>
    by_cases h : stepF E S = S
    · left; exact h
    · right
      have hss : S ⊂ stepF E S := (subset_stepF E S).ssubset_of_ne (Ne.symm h)
      have := card_lt_card hss
      show 0 + 1 + S.card ≤ (stepF E S).card
      omega
  | succ k ih =>
    by_cases h : it E S (k+1+1) = it E S (k+1)
    · left; exact h
    · right
      rcases ih with heq | hge
      · exfalso; apply h
        show stepF E (it E S (k+1)) = it E S (k+1)
        rw [heq]; exact heq
      · have hss : it E S (k+1) ⊂ it E S (k+1+1) :=
          (subset_stepF E _).ssubset_of_ne (Ne.symm h)
        have := card_lt_card hss
        omega

theorem closed_after_n (S : Finset (Fin n)) : stepF E (it E S n) = it E S n := by
  rcases card_grows E S n with h | h
  · exact h
  · exfalso
    have := card_le_univ (it E S (n+1))
    simp at this; omega

theorem sound (S : Finset (Fin n)) (k : ℕ) (v : Fin n) (hv : v ∈ it E S k) :
    ∃ s ∈ S, Relation.ReflTransGen E s v := by
  induction k generalizing v with
  | zero => exact ⟨v, hv, Relation.ReflTransGen.refl⟩
  | succ k ih =>
    rcases mem_union.1 hv with h | h
    · exact ih v h
    · obtain ⟨u, hu, huv⟩ := (mem_filter.1 h).2
      obtain ⟨s, hs, hsu⟩ := ih u hu
      exact ⟨s, hs, hsu.tail huv⟩

theorem complete (S : Finset (Fin n)) (s v : Fin n) (hs : s ∈ S) (h : Relation.ReflTransGen E s v) :
    v ∈ it E S n := by
  induction h with
  | refl => exact subset_it E S n hs
  | tail _ huv ih =>
    rw [← closed_after_n E S]
    exact mem_union_right _ (mem_filter.2 ⟨mem_univ _, _, ih, huv⟩)

theorem bfs_eq_reach (S : Finset (Fin n)) (v : Fin n) :
    v ∈ it E S n ↔ ∃ s ∈ S, Relation.ReflTransGen E s v :=
  ⟨sound E S n v, fun ⟨s, hs, h⟩ => complete E S s v hs h⟩

/-! ### the executable model computes exactly that -/

/-- set of nodes marked in a mask -/
def toSet (vis : Fin n → Bool) : Finset (Fin n) := univ.filter (fun v => vis v = true)

theorem toSet_expand (edge : Fin n → Fin n → Bool) (vis : Fin n → Bool) :
    toSet (expand edge vis) = stepF (fun u v => edge u v = true) (toSet vis) := by
  ext v
  simp only [toSet, expand, stepF, mem_filter, mem_univ, true_and, mem_union, Bool.or_eq_true, List.any_eq_true,
    List.mem_finRange, Bool.and_eq_true]

theorem toSet_iter (edge : Fin n → Fin n → Bool) (vis : Fin n → Bool) (k : ℕ) :
    toSet (iter edge vis k) = it (fun u v => edge u v = true) (toSet vis) k := by
  induction k with
  | zero => rfl
  | succ k ih => simp only [iter, it, toSet_expand, ih]

/-- hydraulic supply relation: `u → v` iff some in-service, non-connector branch leads from `u` to `v`
    (either declared that way, or declared the other way and not directed) -/
def Step (c : ConnIn n b) (u v : Fin n) : Prop :=
  ∃ k, c.brActive k = true ∧ c.flowReturn k = false ∧
    ((c.fn k = u ∧ c.tn k = v) ∨ (c.directed k = false ∧ c.tn k = u ∧ c.fn k = v))

theorem edge_iff (c : ConnIn n b) (u v : Fin n) : c.edge u v = true ↔ Step c u v := by
  unfold ConnIn.edge Step
  simp only [List.any_eq_true, List.mem_finRange, true_and, Bool.and_eq_true, Bool.or_eq_true, beq_iff_eq,
    Bool.not_eq_true', and_assoc]

/-- **C04, supplied junctions.** A node is marked supplied iff it can be reached from an in-service
    pressure-fixing node along in-service connecting branches (directed ones only forwards). -/
theorem node_supplied_iff (c : ConnIn n b) (v : Fin n) :
    c.nodesConnected v = true ↔
      ∃ s, c.isSlack s = true ∧ c.nodeActive s = true ∧ Relation.ReflTransGen (Step c) s v := by
  rw [c.nodesConnected_eq]
  have h1 : (iter c.edge (fun i => c.isSlack i && c.nodeActive i) n) v = true ↔
      v ∈ toSet (iter c.edge (fun i => c.isSlack i && c.nodeActive i) n) := by simp [toSet]
  rw [h1, toSet_iter, bfs_eq_reach]
  have hrel : (fun u v => c.edge u v = true) = Step c := by
    funext u v; exact propext (edge_iff c u v)
  simp only [hrel, toSet, mem_filter, mem_univ, true_and, Bool.and_eq_true]
  constructor
  · rintro ⟨s, ⟨h1, h2⟩, h3⟩; exact ⟨s, h1, h2, h3⟩
  · rintro ⟨s, h1, h2, h3⟩; exact ⟨s, ⟨h1, h2⟩, h3⟩

/-- **C04, branch elements.** An ordinary branch is calculated iff it is in service and its from node is
    supplied; a flow/return connector (circulation pump) iff it is in service and both ends are supplied. -/
theorem branch_active_iff (c : ConnIn n b) (k : Fin b) :
    c.branchesConnected k = true ↔
      c.brActive k = true ∧ c.nodesConnected (c.fn k) = true ∧ (c.flowReturn k = true → c.nodesConnected (c.tn k) = true) := by
  unfold ConnIn.branchesConnected ConnIn.branchesConnectedWith
  cases h : c.flowReturn k <;> simp [and_comm, and_assoc, and_left_comm]

/-- the supplied set is closed under forward steps: the to-node of a calculated ordinary branch is
    supplied as well, so every calculated branch has two supplied ends (`active_refs_valid`) -/
theorem to_node_supplied (c : ConnIn n b) (k : Fin b) (hk : c.branchesConnected k = true) :
    c.nodesConnected (c.fn k) = true ∧ c.nodesConnected (c.tn k) = true := by
  obtain ⟨ha, hf, hfr⟩ := (branch_active_iff c k).1 hk
  refine ⟨hf, ?_⟩
  cases h : c.flowReturn k
  · obtain ⟨s, h1, h2, h3⟩ := (node_supplied_iff c _).1 hf
    exact (node_supplied_iff c _).2 ⟨s, h1, h2, h3.tail ⟨k, ha, h, Or.inl ⟨rfl, rfl⟩⟩⟩
  · exact hfr h

/-- nothing is supplied when there is no in-service pressure-fixing node (the code then raises) -/
theorem no_supply (c : ConnIn n b) (h : ∀ s, ¬ (c.isSlack s = true ∧ c.nodeActive s = true)) (v : Fin n) :
    c.nodesConnected v = false := by
  by_contra hc
  have hv : c.nodesConnected v = true := by simpa using hc
  obtain ⟨s, h1, h2, _⟩ := (node_supplied_iff c v).1 hv
  exact h s ⟨h1, h2⟩

/-- outages elsewhere do not matter: two descriptions with the same supply relation and the same
    in-service slacks mark the same nodes -/
theorem supplied_depends_only_on_reach (c c' : ConnIn n b)
    (hstep : ∀ u v, Step c u v ↔ Step c' u v)
    (hsl : ∀ s, (c.isSlack s = true ∧ c.nodeActive s = true) ↔ (c'.isSlack s = true ∧ c'.nodeActive s = true)) :
    c.nodesConnected = c'.nodesConnected := by
  funext v
  have hrel : Step c = Step c' := by funext u w; exact propext (hstep u w)
  have : c.nodesConnected v = true ↔ c'.nodesConnected v = true := by
    rw [node_supplied_iff, node_supplied_iff, hrel]
    constructor
    · rintro ⟨s, h1, h2, h3⟩; exact ⟨s, ((hsl s).1 ⟨h1, h2⟩).1, ((hsl s).1 ⟨h1, h2⟩).2, h3⟩
    · rintro ⟨s, h1, h2, h3⟩; exact ⟨s, ((hsl s).2 ⟨h1, h2⟩).1, ((hsl s).2 ⟨h1, h2⟩).2, h3⟩
  cases h1 : c.nodesConnected v <;> cases h2 : c'.nodesConnected v <;> simp_all

/-! ### renumbering of the active pit (`np.cumsum(connected) − 1`) -/

theorem renumber_lt_count (conn : Fin n → Bool) (i : Fin n) (hi : conn i = true) :
    renumber conn i < countConnected conn := by
  unfold renumber countConnected
  have hsub : ((List.finRange n).filter (fun j => decide (j.val < i.val) && conn j)).Sublist
      (((List.finRange n).filter conn).erase i) := by
    have h1 : (List.finRange n).filter (fun j => decide (j.val < i.val) && conn j)
        = (((List.finRange n).filter conn).erase i).filter (fun j => decide (j.val < i.val)) := by
      rw [List.Nodup.erase_eq_filter ((List.nodup_finRange n).filter _), List.filter_filter, List.filter_filter]
      apply List.filter_congr
      intro j _
      by_cases hlt : j.val < i.val
      · have : j ≠ i := fun h => by rw [h] at hlt; exact lt_irrefl _ hlt
        simp [hlt, this]
      · simp [hlt]
    rw [h1]; exact List.filter_sublist
  have hmem : i ∈ (List.finRange n).filter conn := List.mem_filter.2 ⟨List.mem_finRange i, hi⟩
  have := hsub.length_le
  rw [List.length_erase_of_mem hmem] at this
  have hpos : 0 < ((List.finRange n).filter conn).length := List.length_pos_of_mem hmem
  omega

/-- renumbering keeps the order of the active nodes and is injective on them -/
theorem renumber_strictMono (conn : Fin n → Bool) (i j : Fin n) (hi : conn i = true) (hij : i.val < j.val) :
    renumber conn i < renumber conn j := by
  unfold renumber
  have hsub : ((List.finRange n).filter (fun k => decide (k.val < i.val) && conn k)).Sublist
      (((List.finRange n).filter (fun k => decide (k.val < j.val) && conn k)).erase i) := by
    have h1 : (List.finRange n).filter (fun k => decide (k.val < i.val) && conn k)
        = (((List.finRange n).filter (fun k => decide (k.val < j.val) && conn k)).erase i).filter
            (fun k => decide (k.val < i.val)) := by
      rw [List.Nodup.erase_eq_filter ((List.nodup_finRange n).filter _), List.filter_filter, List.filter_filter]
      apply List.filter_congr
      intro k _
      by_cases hlt : k.val < i.val
      · have : k ≠ i := fun h => by rw [h] at hlt; exact lt_irrefl _ hlt
        have : k.val < j.val := lt_trans hlt hij
        simp_all
      · simp [hlt]
    rw [h1]; exact List.filter_sublist
  have hmem : i ∈ (List.finRange n).filter (fun k => decide (k.val < j.val) && conn k) :=
    List.mem_filter.2 ⟨List.mem_finRange i, by simp [hij, hi]⟩
  have := hsub.length_le
  rw [List.length_erase_of_mem hmem] at this
  have hpos := List.length_pos_of_mem hmem
  omega

/-! non-vacuity: node 2 fixes the pressure; branch 0 (0–1, undirected) and branch 1 (1→2, directed):
    only node 2 is supplied because the directed branch cannot be passed backwards -/
def exC : ConnIn 3 2 :=
  { fn := fun k => if k = 0 then 0 else 1, tn := fun k => if k = 0 then 1 else 2, brActive := fun _ => true,
    directed := fun k => k = 1, flowReturn := fun _ => false, nodeActive := fun _ => true, isSlack := fun i => i = 2 }
example : exC.nodesConnected 2 = true ∧ exC.nodesConnected 1 = false ∧ exC.branchesConnected 1 = false := by decide

end PPV.Props.C04
