/-
  C09 — physically equivalent descriptions of a network give identical results.

  Theorems over the kernels generated from the current source: odd symmetry of the branch laws under
  reversal, independence of a liquid pipe's law from the purely numerical number of sections (length and
  lumped loss coefficient are both divided among the sections), invariance of liquid laws under a common
  pressure shift, and load aggregation per junction.  `disabled = absent` is C04's
  `supplied_depends_only_on_reach`.
-/
import PPV.Lemmas.KTac
import PPV.Gen.Kernels
import PPV.Props.C06
import Mathlib.Algebra.BigOperators.Group.List.Basic

namespace PPV.Props.C09
open PPV PPV.Gen PPV.Gen.Kernels PPV.Model.GroupSum

/-- **reversal, liquids.** Declaring a passive branch (no lift) the other way round — from/to pressures
    swapped, height difference negated — and reversing the sign of the flow negates the residual: the
    reversed description has the solution with the flow sign flipped and the same pressures. -/
theorem reverse_odd_incomp (br : BranchRow ℝ) (dl dl' p p1 dh rho : ℝ) (hPL : br.PL = 0) :
    (hydIncompNp { br with MDOTINIT := -br.MDOTINIT } dl' p1 p (-dh) rho).load_vec
      = - (hydIncompNp br dl p p1 dh rho).load_vec := by
  simp only [hydIncompNp, hPL]
  kunfold
  rw [abs_neg]
  norm_num only
  ring

/-- **reversal, gases** (same mean temperature seen from either end) -/
theorem reverse_odd_comp (br : BranchRow ℝ) (nf nt : NodeRow ℝ) (lam dl dl' p p1 dh K dK dK1 dK' dK1' rho rhoN : ℝ)
    (hPL : br.PL = 0) (hT : nt.TINIT = nf.TINIT) :
    (hydCompNp { br with MDOTINIT := -br.MDOTINIT } nt lam dl' p1 p (-dh) K dK' dK1' rho rhoN).load_vec
      = - (hydCompNp br nf lam dl p p1 dh K dK dK1 rho rhoN).load_vec := by
  simp only [hydCompNp, hPL, hT]
  kunfold
  rw [abs_neg]
  norm_num only
  ring

/-- **sections, liquids at uniform temperature.** The friction loss of one section of an `n`-section pipe
    (length `l/n`, lumped coefficient `ζ/n`, same diameter, friction factor, density and flow) is one `n`-th of
    the loss of the whole pipe, so `n` sections in series lose exactly what the single-section pipe loses. -/
theorem sections_irrelevant_liquid (br : BranchRow ℝ) (dl p p1 dh rho : ℝ) (n : ℕ) (hn : 0 < n) :
    (n : ℝ) * (hydIncompNp { br with LENGTH := br.LENGTH / n, LOSS_COEFFICIENT := br.LOSS_COEFFICIENT / n }
        dl p p1 dh rho).dp_frict_loss
      = (hydIncompNp br dl p p1 dh rho).dp_frict_loss := by
  simp only [hydIncompNp]
  kunfold
  have hn' : (n : ℝ) ≠ 0 := Nat.cast_ne_zero.2 (Nat.pos_iff_ne_zero.1 hn)
  field_simp

/-- **pressure shift, liquids.** The liquid residual depends on the end pressures only through their
    difference: raising all fixed pressures by `c` raises every pressure by `c` and leaves the flows. -/
theorem pressure_shift_liquid (br : BranchRow ℝ) (dl p p1 dh rho c : ℝ) :
    (hydIncompNp br dl (p + c) (p1 + c) dh rho).load_vec = (hydIncompNp br dl p p1 dh rho).load_vec ∧
    (hydIncompNp br dl (p + c) (p1 + c) dh rho).df_dm = (hydIncompNp br dl p p1 dh rho).df_dm := by
  simp only [hydIncompNp]
  kunfold
  constructor
  · ring
  · trivial

/-- **load aggregation.** The load of a junction is the sum over its node elements: two sinks with flows
    `a`, `b` at junction `j` equal one sink with `a + b`; a source is a negative sink (its pair carries
    `-flow`). -/
theorem loads_aggregate {R : Type} [AddCommGroup R] (pairs : List (Nat × R)) (j : Nat) (a c : R) (k : Nat) :
    sumOf (pairs ++ [(j, a), (j, c)]) k = sumOf (pairs ++ [(j, a + c)]) k := by
  unfold sumOf
  simp only [List.filter_append, List.map_append, List.sum_append]
  by_cases h : j = k
  · simp [h, List.filter_cons]
  · simp [h, List.filter_cons]

/-- non-vacuity of `reverse_odd_incomp`: a concrete pipe row with zero lift -/
example : ∃ br : BranchRow ℝ, br.PL = 0 ∧ br.MDOTINIT = 1 :=
  ⟨{ BranchRow.ofArray (Array.replicate 64 (0 : ℝ)) with PL := 0, MDOTINIT := 1 }, rfl, rfl⟩

/-- **reversal, branch density.** Describing a branch the other way round (ends exchanged, flow flag toggled, same outlet
    temperature) leaves the mean density the solver and the result extraction use unchanged, for gases and for liquids and
    for every density / compressibility function (`get_branch_real_density`, generated). -/
theorem real_density_reverse (b b' : BranchRow ℝ) (nf nt : NodeRow ℝ) (Rho : ℝ → ℝ) (Z : ℝ → ℝ → ℝ)
    (hT : b'.TOUTINIT = b.TOUTINIT) (hs : b'.FROM_NODE_T_SWITCHED ≠ 0 ↔ b.FROM_NODE_T_SWITCHED = 0) :
    (realDensityGas b' nt nf Rho Z).rho = (realDensityGas b nf nt Rho Z).rho ∧
    (realDensityLiquid b' nt nf Rho).rho = (realDensityLiquid b nf nt Rho).rho := by
  simp only [realDensityGas, realDensityLiquid]
  kunfold
  by_cases h : b.FROM_NODE_T_SWITCHED = 0
  · have h' : b'.FROM_NODE_T_SWITCHED ≠ 0 := hs.2 h
    simp [h, h', hT]
  · have h' : b'.FROM_NODE_T_SWITCHED = 0 := by
      by_contra hc; exact h (hs.1 hc)
    simp [h, h', hT]

end PPV.Props.C09
