/-
  C17 — restructuring tools preserve referential integrity.

  Theorems over the reference-skeleton specification `Model/Toolbox.lean`: every operation, and therefore
  every finite sequence of operations, maps a net without dangling references to a net without dangling
  references; relabelling changes labels only.  The correspondence check compares the real toolbox
  functions with this specification on random operation sequences (all component types, junction–pipe
  valves, remote controlled junctions, engineered index coincidences between pipes and junctions).
-/
import PPV.Model.Toolbox
import Mathlib.Tactic.Cases
import Mathlib.Data.List.Basic

namespace PPV.Props.C17
open PPV.Model.Toolbox

theorem reindexJunctions_RI (σ : Nat → Nat) (n : Net) (h : RI n) : RI (reindexJunctions σ n) := by
  obtain ⟨hp, he⟩ := h
  refine ⟨?_, ?_⟩
  · intro e hemem j hj
    simp only [reindexJunctions, List.mem_map] at hemem
    obtain ⟨e0, he0, rfl⟩ := hemem
    simp only [Elem.mapJ, List.mem_map] at hj
    obtain ⟨j0, hj0, rfl⟩ := hj
    exact List.mem_map.2 ⟨j0, hp e0 he0 j0 hj0, rfl⟩
  · intro e hemem
    simp only [reindexJunctions, List.mem_map] at hemem
    obtain ⟨e0, he0, rfl⟩ := hemem
    refine ⟨?_, ?_⟩
    · intro j hj
      simp only [Elem.mapJ, List.mem_map] at hj
      obtain ⟨j0, hj0, rfl⟩ := hj
      exact List.mem_map.2 ⟨j0, (he e0 he0).1 j0 hj0, rfl⟩
    · intro p hpp
      have := (he e0 he0).2 p (by simpa [Elem.mapJ] using hpp)
      simp only [Net.pipeIdx, reindexJunctions, List.map_map] at this ⊢
      simpa [Function.comp_def, Elem.mapJ] using this

theorem reindexPipes_RI (σ : Nat → Nat) (n : Net) (h : RI n) : RI (reindexPipes σ n) := by
  obtain ⟨hp, he⟩ := h
  refine ⟨?_, ?_⟩
  · intro e hemem j hj
    simp only [reindexPipes, List.mem_map] at hemem
    obtain ⟨e0, he0, rfl⟩ := hemem
    exact hp e0 he0 j hj
  · intro e hemem
    simp only [reindexPipes, List.mem_map] at hemem
    obtain ⟨e0, he0, rfl⟩ := hemem
    refine ⟨fun j hj => (he e0 he0).1 j (by simpa [Elem.mapP] using hj), ?_⟩
    intro p hpp
    simp only [Elem.mapP, Option.map_eq_some_iff] at hpp
    obtain ⟨p0, hp0, rfl⟩ := hpp
    have := (he e0 he0).2 p0 hp0
    simp only [Net.pipeIdx, List.mem_map] at this ⊢
    obtain ⟨q, hq, rfl⟩ := this
    exact ⟨{ q with idx := σ q.idx }, List.mem_map.2 ⟨q, hq, rfl⟩, rfl⟩

theorem dropPipes_RI (ps : List Nat) (n : Net) (h : RI n) : RI (dropPipes ps n) := by
  obtain ⟨hp, he⟩ := h
  refine ⟨?_, ?_⟩
  · intro e hemem j hj
    exact hp e (List.mem_filter.1 hemem).1 j hj
  · intro e hemem
    have hmem := List.mem_filter.1 hemem
    refine ⟨(he e hmem.1).1, ?_⟩
    intro p hpp
    have hin := (he e hmem.1).2 p hpp
    have hnot : ps.contains p = false := by
      have := hmem.2; rw [hpp] at this; simpa using this
    simp only [Net.pipeIdx, dropPipes, List.mem_map] at hin ⊢
    obtain ⟨q, hq, rfl⟩ := hin
    exact ⟨q, List.mem_filter.2 ⟨hq, by rw [hnot]; rfl⟩, rfl⟩

theorem dropJunctions_RI (js : List Nat) (n : Net) (h : RI n) : RI (dropJunctions js n) := by
  obtain ⟨hp, he⟩ := h
  unfold dropJunctions
  refine ⟨?_, ?_⟩
  · -- surviving pipes touch no dropped junction, so their references survive the junction filter
    intro e hemem j hj
    have hmem := List.mem_filter.1 hemem
    have hnt : touches js e = false := by
      by_contra hc
      have ht : touches js e = true := by simpa using hc
      have : e.idx ∈ (n.pipes.filter (touches js)).map (·.idx) :=
        List.mem_map.2 ⟨e, List.mem_filter.2 ⟨hmem.1, ht⟩, rfl⟩
      have h2 := hmem.2
      simp only [Bool.not_eq_true', List.contains_eq_mem, decide_eq_false_iff_not] at h2
      exact h2 this
    refine List.mem_filter.2 ⟨hp e hmem.1 j hj, ?_⟩
    simp only [touches, List.any_eq_false] at hnt
    have := hnt j hj
    simpa using this
  · intro e hemem
    have hmem := List.mem_filter.1 hemem
    have hmem1 := List.mem_filter.1 hmem.1
    refine ⟨?_, ?_⟩
    · intro j hj
      refine List.mem_filter.2 ⟨(he e hmem1.1).1 j hj, ?_⟩
      have hnt : touches js e = false := by simpa using hmem1.2
      simp only [touches, List.any_eq_false] at hnt
      simpa using hnt j hj
    · intro p hpp
      have hin := (he e hmem1.1).2 p hpp
      have hnot : ((n.pipes.filter (touches js)).map (·.idx)).contains p = false := by
        have := hmem.2; rw [hpp] at this; simpa using this
      simp only [Net.pipeIdx, dropPipes, List.mem_map] at hin ⊢
      obtain ⟨q, hq, rfl⟩ := hin
      exact ⟨q, List.mem_filter.2 ⟨hq, by rw [hnot]; rfl⟩, rfl⟩

theorem fuseJunctions_RI (j1 : Nat) (j2s : List Nat) (n : Net) (h : RI n) (hj1 : j1 ∈ n.junctions) :
    RI (fuseJunctions j1 j2s n) := by
  obtain ⟨hp, he⟩ := h
  have key : ∀ j ∈ n.junctions, (if (j2s.contains j && j != j1) = true then j1 else j) ∈
      n.junctions.filter (fun j => !(j2s.contains j && j != j1)) := by
    intro j hj
    by_cases hc : (j2s.contains j && j != j1) = true
    · rw [if_pos hc]
      exact List.mem_filter.2 ⟨hj1, by simp⟩
    · rw [if_neg hc]
      have hf : (j2s.contains j && j != j1) = false := Bool.eq_false_iff.2 hc
      exact List.mem_filter.2 ⟨hj, by rw [hf]; rfl⟩
  refine ⟨?_, ?_⟩
  · intro e hemem j hj
    simp only [fuseJunctions, List.mem_map] at hemem
    obtain ⟨e0, he0, rfl⟩ := hemem
    simp only [Elem.mapJ, List.mem_map] at hj
    obtain ⟨j0, hj0, rfl⟩ := hj
    exact key j0 (hp e0 he0 j0 hj0)
  · intro e hemem
    simp only [fuseJunctions, List.mem_map] at hemem
    obtain ⟨e0, he0, rfl⟩ := hemem
    refine ⟨?_, ?_⟩
    · intro j hj
      simp only [Elem.mapJ, List.mem_map] at hj
      obtain ⟨j0, hj0, rfl⟩ := hj
      exact key j0 ((he e0 he0).1 j0 hj0)
    · intro p hpp
      have := (he e0 he0).2 p (by simpa [Elem.mapJ] using hpp)
      simp only [Net.pipeIdx, fuseJunctions, List.map_map] at this ⊢
      simpa [Function.comp_def, Elem.mapJ] using this

/-- operations of a history are admissible when every fuse target exists at the time it is used -/
def Admissible : List Op → Net → Prop
  | [], _ => True
  | op :: t, n => (match op with | .fuse j1 _ => j1 ∈ n.junctions | _ => True) ∧ Admissible t (op.apply n)

/-- **C17, histories.** Any admissible sequence of relabellings, drops and fusions keeps every reference of
    every element (junction–pipe valves and remote controlled junctions included) resolvable. -/
theorem ops_preserve_RI (ops : List Op) (n : Net) (h : RI n) (ha : Admissible ops n) :
    RI (ops.foldl (fun acc op => op.apply acc) n) := by
  induction ops generalizing n with
  | nil => simpa using h
  | cons op t ih =>
    simp only [List.foldl_cons]
    apply ih
    · cases op with
      | reindexJ s => exact reindexJunctions_RI _ n h
      | reindexP s => exact reindexPipes_RI _ n h
      | dropJ js => exact dropJunctions_RI js n h
      | dropP ps => exact dropPipes_RI ps n h
      | fuse j1 j2s => exact fuseJunctions_RI j1 j2s n h ha.1
    · exact ha.2

/-- relabelling is invisible up to the relabelling: undoing it gives the net back (labels only) -/
theorem reindex_roundtrip (σ τ : Nat → Nat) (hinv : ∀ j, τ (σ j) = j) (n : Net) :
    reindexJunctions τ (reindexJunctions σ n) = n := by
  have hm : ∀ l : List Nat, (l.map σ).map τ = l := by
    intro l; simp [List.map_map, Function.comp_def, hinv]
  have he : ∀ l : List Elem, (l.map (Elem.mapJ σ)).map (Elem.mapJ τ) = l := by
    intro l
    rw [List.map_map]
    conv_rhs => rw [← List.map_id l]
    apply List.map_congr_left
    intro e _
    simp [Elem.mapJ, Function.comp_def, hm]
  cases n
  simp only [reindexJunctions, hm, he]

/-- non-vacuity: junctions 0,1,2; pipe 5 (0–1); a junction–pipe valve on pipe 5 at junction 0; a pressure
    controller 1→2 controlling junction 2 -/
def exNet : Net :=
  { junctions := [0, 1, 2], pipes := [⟨"pipe", 5, [0, 1], none⟩],
    elems := [⟨"valve", 0, [0], some 5⟩, ⟨"press_control", 0, [1, 2, 2], none⟩] }
example : RI exNet := by
  refine ⟨?_, ?_⟩ <;> intro e he <;> simp [exNet, Net.pipeIdx] at he ⊢ <;> rcases he with rfl | rfl <;> simp

end PPV.Props.C17
