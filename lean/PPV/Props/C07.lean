/-
  C07 — numba and numpy engines give the same answer (kernel level).

  Every definition referred to here is *generated* from the current source of
  `pf/derivative_toolbox.py` / `pf/derivative_toolbox_numba.py` (Gen/Kernels.lean), so each theorem is
  re-checked against what the two hand-written twins say now.  Statements are over ℝ, for all inputs.
  Where the twins genuinely differ the exact difference is stated (`…_differs_only_…`).
-/
import PPV.Lemmas.KTac
import PPV.Gen.Kernels
import PPV.Model.GasResults

namespace PPV.Props.C07
open PPV PPV.Gen PPV.Gen.Kernels

/-- liquid residual / derivatives: all eight outputs agree -/
theorem hyd_incomp_np_eq_numba (b : BranchRow ℝ) (dl p p1 dh rho : ℝ) :
    let x := hydIncompNp b dl p p1 dh rho; let y := hydIncompNumba b dl p p1 dh rho
    x.load_vec = y.load_vec ∧ x.load_vec_nodes_from = y.load_vec_nodes_from ∧ x.load_vec_nodes_to = y.load_vec_nodes_to ∧
    x.df_dm = y.df_dm ∧ x.df_dm_nodes = y.df_dm_nodes ∧ x.df_dp = y.df_dp ∧ x.df_dp1 = y.df_dp1 ∧
    x.dp_frict_loss = y.dp_frict_loss := by
  simp only [hydIncompNp, hydIncompNumba]
  refine ⟨by kclose, by kclose, by kclose, by kclose, by kclose, by kclose, by kclose, by kclose⟩

/-- gas residual / derivatives: everything that reaches the right-hand side agrees for all inputs; the
    Jacobian entry `df_dm` agrees whenever `|ṁ|` is not numerically zero -/
theorem hyd_comp_np_eq_numba (b : BranchRow ℝ) (nf : NodeRow ℝ) (lam dl p p1 dh z dz dz1 rho rhon : ℝ) :
    let x := hydCompNp b nf lam dl p p1 dh z dz dz1 rho rhon; let y := hydCompNumba b nf lam dl p p1 dh z dz dz1 rho rhon
    x.load_vec = y.load_vec ∧ x.load_vec_nodes_from = y.load_vec_nodes_from ∧ x.load_vec_nodes_to = y.load_vec_nodes_to ∧
    x.df_dm_nodes = y.df_dm_nodes ∧ x.df_dp = y.df_dp ∧ x.df_dp1 = y.df_dp1 ∧ x.dp_frict_loss = y.dp_frict_loss ∧
    (¬ (|(|b.MDOTINIT|) - 0| ≤ 1e-8 + 1e-5 * |(0:ℝ)|) → x.df_dm = y.df_dm) := by
  simp only [hydCompNp, hydCompNumba]
  refine ⟨by kclose, by kclose, by kclose, by kclose, by kclose, by kclose, by kclose, ?_⟩
  intro h
  kunfold
  simp only [h, if_false]
  kclose

/-- the only difference of the gas twins: numpy replaces `df_dm` by 1 at numerically zero flow -/
theorem hyd_comp_differs_only_at_zero_flow (b : BranchRow ℝ) (nf : NodeRow ℝ) (lam dl p p1 dh z dz dz1 rho rhon : ℝ)
    (h0 : |(|b.MDOTINIT|) - 0| ≤ 1e-8 + 1e-5 * |(0:ℝ)|) :
    (hydCompNp b nf lam dl p p1 dh z dz dz1 rho rhon).df_dm = 1 := by
  simp only [hydCompNp]
  kunfold
  simp only [h0, if_true]
  kclose

/-- `calc_derived_values`: identical -/
theorem derived_values_np_eq_numba (nf nt : NodeRow ℝ) :
    let x := derivedValuesNp nf nt; let y := derivedValuesNumba nf nt
    x.tinit_branch = y.tinit_branch ∧ x.height_difference = y.height_difference ∧
    x.p_init_i_abs = y.p_init_i_abs ∧ x.p_init_i1_abs = y.p_init_i1_abs := by
  simp only [derivedValuesNp, derivedValuesNumba]
  refine ⟨by kclose, by kclose, by kclose, by kclose⟩

/-- the two "is the Reynolds number zero" tests are the same predicate -/
theorem re_zero_test (re : ℝ) : (¬ |re - 0| ≤ 1e-8 + 1e-5 * |(0:ℝ)|) ↔ (1.0e-8 : ℝ) < |re| := by
  norm_num

/-- Nikuradse friction factor, liquids: Reynolds number, laminar part and turbulent part agree -/
theorem lambda_incomp_np_eq_numba (m d k eta area : ℝ) :
    let x := lambdaIncompNp m d k eta area; let y := lambdaIncompNumba m d k eta area
    x.re = y.re ∧ x.lambda_laminar = y.lambda_laminar ∧ x.lambda_nikuradse = y.lambda_nikuradse := by
  simp only [lambdaIncompNp, lambdaIncompNumba]
  kunfold
  refine ⟨trivial, ?_, ?_⟩
  · by_cases h : (1.0e-8 : ℝ) < |(|m| * d / (eta * area))|
    · have h' := (re_zero_test _).2 h
      simp only [h, h', if_true, if_false]
    · have h' : |(|m| * d / (eta * area)) - 0| ≤ 1e-8 + 1e-5 * |(0:ℝ)| := by
        by_contra hc; exact h ((re_zero_test _).1 hc)
      simp only [h, h', if_true, if_false]
  · have e : (-(2:ℝ)) = ((-2 : ℤ) : ℝ) := by norm_num
    rw [e, Real.rpow_intCast, zpow_neg, one_div]
    generalize Real.logb 10 (k / (3.71 * d)) = X
    by_cases hX : X = 0
    · simp [hX]
    · field_simp

/-- Nikuradse friction factor, gases -/
theorem lambda_comp_np_eq_numba (m d k eta area : ℝ) :
    let x := lambdaCompNp m d k eta area; let y := lambdaCompNumba m d k eta area
    x.re = y.re ∧ x.lambda_laminar = y.lambda_laminar ∧ x.lambda_nikuradse = y.lambda_nikuradse := by
  simp only [lambdaCompNp, lambdaCompNumba]
  kunfold
  refine ⟨trivial, ?_, trivial⟩
  by_cases h : (1.0e-8 : ℝ) < |(|m| * d / (eta * area))|
  · have h' := (re_zero_test _).2 h
    simp only [h, h', if_true, if_false]
  · have h' : |(|m| * d / (eta * area)) - 0| ≤ 1e-8 + 1e-5 * |(0:ℝ)| := by
      by_contra hc; exact h ((re_zero_test _).1 hc)
    simp only [h, h', if_true, if_false]

/-- mean pressure of a gas pipe and its two derivatives -/
theorem medium_pressure_np_eq_numba (p p1 : ℝ) :
    let x := mediumPressureNp p p1; let y := mediumPressureNumba p p1
    x.p_m = y.p_m ∧ x.der_p_m = y.der_p_m ∧ x.der_p_m1 = y.der_p_m1 := by
  simp only [mediumPressureNp, mediumPressureNumba]
  kunfold
  by_cases h : p = p1
  · subst h; simp
  · simp only [h, not_false_eq_true, if_true, ne_eq]
    refine ⟨?_, ?_, ?_⟩
    · trivial
    · simp only [if_false]; ring
    · simp only [if_false]; ring

/-- thermal node rows: identical -/
theorem thermal_node_np_eq_numba (t amb : ℝ) (nodes_flow : Bool) :
    (thermalNodeNp t amb nodes_flow).fn = (thermalNodeNumba t amb nodes_flow).fn ∧
    (thermalNodeNp t amb nodes_flow).dfn_dt = (thermalNodeNumba t amb nodes_flow).dfn_dt := by
  simp only [thermalNodeNp, thermalNodeNumba]
  cases nodes_flow <;> (kunfold; refine ⟨by kclose, by kclose⟩)

/-- the two "does this branch carry flow" tests are the same predicate (NaN does not exist over ℝ) -/
theorem branches_flow_np_eq_numba (b : BranchRow ℝ) :
    (branchesNotZeroFlowNp b).ret = (makeLookupsNumba b).branches_flow := by
  simp only [branchesNotZeroFlowNp, makeLookupsNumba]
  kunfold
  by_cases h : (1e-10 : ℝ) < |b.MDOTINIT| <;> simp [h] <;> norm_num at h ⊢ <;> linarith

/-- thermal branch residual and derivatives: the branch equation (`fb`, `dfb_dt`, `dfb_dtout`) agrees for
    all inputs; the node-equation contributions agree whenever the branch carries flow -/
theorem thermal_branch_np_eq_numba (b : BranchRow ℝ) (ti ti1 tnt cpn cpb amb : ℝ) :
    let x := thermalBranchNp b ti ti1 tnt cpn cpb amb; let y := thermalBranchNumba b ti ti1 tnt cpn cpb amb
    x.fb = y.fb ∧ x.dfb_dt = y.dfb_dt ∧ x.dfb_dtout = y.dfb_dtout ∧
    ((makeLookupsNumba b).branches_flow = true → x.fnt = y.fnt ∧ x.dfnt_dt = y.dfnt_dt ∧ x.dfnt_dtout = y.dfnt_dtout) := by
  have hb := branches_flow_np_eq_numba b
  simp only [branchesNotZeroFlowNp] at hb
  simp only [thermalBranchNp, thermalBranchNumba, hb]
  cases hf : (makeLookupsNumba b).branches_flow <;> (kunfold; simp)

/-- the stated difference: without flow numpy zeroes the node-equation terms, numba keeps
    `c_p·|ṁ|·ΔT` with `|ṁ| ≤ 1e-10` -/
theorem thermal_branch_differs_only_without_flow (b : BranchRow ℝ) (ti ti1 tnt cpn cpb amb : ℝ)
    (hf : (makeLookupsNumba b).branches_flow = false) :
    (thermalBranchNp b ti ti1 tnt cpn cpb amb).fnt = 0 ∧
    (thermalBranchNumba b ti ti1 tnt cpn cpb amb).fnt = cpn * |b.MDOTINIT| * (ti1 - tnt) ∧ |b.MDOTINIT| ≤ 1e-10 := by
  have hb := branches_flow_np_eq_numba b
  simp only [branchesNotZeroFlowNp] at hb
  refine ⟨?_, ?_, ?_⟩
  · simp only [thermalBranchNp, hb, hf]; kunfold
  · simp only [thermalBranchNumba]; kunfold
  · simp only [makeLookupsNumba] at hf; kunfold; simp at hf; exact hf

/-! ### gas post-processing twins (`pf/result_extraction.py`: `get_branch_results_gas` vs `get_branch_results_gas_numba`)

`gasResultsNp`, `gasPressuresNumba`, `gasVelNumba` are generated from the source; `GasResults.gasResultsNumba` is the
hand-written model of the numba wrapper's glue (tied by correspondence).  `Z p T` is the fluid's compressibility, an
arbitrary function.  Before the repair `fix: gas norm factors with reverse flow` these theorems did not hold: the numpy twin
took the inlet temperature at the declared from-end and the numba twin the from-node temperature, whichever way the gas
flowed (witness replayed on the implementation, see KNOWN_FINDINGS.jsonl). -/

open PPV.Model.GasResults in
/-- absolute and mean pressures of the two twins agree for all inputs (the `isclose` test of numpy and the hand-written
    tolerance test of the numba kernel are the same predicate; the two ways of writing 2/3·(a³−b³)/(a²−b²) agree) -/
theorem gas_pressures_np_eq_numba (b : BranchRow ℝ) (nf nt : NodeRow ℝ) (Z : ℝ → ℝ → ℝ) (v pf pt : ℝ) :
    let x := gasResultsNp b nf nt Z v pf pt; let y := gasResultsNumba b nf nt Z v pf pt
    x.p_abs_from = y.p_abs_from ∧ x.p_abs_to = y.p_abs_to ∧ x.p_abs_mean = y.p_abs_mean := by
  simp only [gasResultsNp, gasResultsNumba, gasPressuresNumba, gasVelNumba]
  kunfold
  refine ⟨trivial, trivial, ?_⟩
  by_cases h : |nf.PAMB + pf - (nt.PAMB + pt)| ≤ 1e-8 + 1e-5 * |nt.PAMB + pt|
  · simp only [h, if_true, not_true_eq_false, if_false]
  · simp only [h, if_false, not_false_eq_true, if_true]
    by_cases hd : (nf.PAMB + pf) * (nf.PAMB + pf) - (nt.PAMB + pt) * (nt.PAMB + pt) = 0
    · simp [hd]
    · field_simp

/-- the two spellings of the mean pressure used by the twins -/
theorem mean_pressure_forms (A B : ℝ) :
    2 / 3 * (A ^ 3 - B ^ 3) / (A * A - B * B) = 2 * (A ^ 3 - B ^ 3) / (3 * (A * A - B * B)) := by
  by_cases hd : A * A - B * B = 0
  · simp [hd]
  · field_simp

open PPV.Model.GasResults in
/-- norm factors and gas velocities of the two twins agree for all inputs, all flow directions and every compressibility
    function -/
theorem gas_results_np_eq_numba (b : BranchRow ℝ) (nf nt : NodeRow ℝ) (Z : ℝ → ℝ → ℝ) (v pf pt : ℝ) :
    let x := gasResultsNp b nf nt Z v pf pt; let y := gasResultsNumba b nf nt Z v pf pt
    x.normfactor_from = y.normfactor_from ∧ x.normfactor_to = y.normfactor_to ∧ x.normfactor_mean = y.normfactor_mean ∧
    x.v_gas_from = y.v_gas_from ∧ x.v_gas_to = y.v_gas_to ∧ x.v_gas_mean = y.v_gas_mean := by
  simp only [gasResultsNp, gasResultsNumba, gasPressuresNumba, gasVelNumba, wrapperTFrom, wrapperTTo]
  kunfold
  simp only [mean_pressure_forms]
  by_cases h : |nf.PAMB + pf - (nt.PAMB + pt)| ≤ 1e-8 + 1e-5 * |nt.PAMB + pt| <;>
    by_cases hs : b.FROM_NODE_T_SWITCHED = 0 <;> simp [h, hs]

end PPV.Props.C07
