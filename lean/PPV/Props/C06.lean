/-
  C06 — results do not depend on labels, row order or creation order (index plumbing).

  Model: `Model/GroupSum.lean` — the two grouped-sum implementations and the index lookup, tied to
  `_sum_by_group_np` / `_sum_by_group_numba` by an exact correspondence (integers, labels up to 5·10⁶,
  around the 1e5 / 2·len / 10·len switch of the numba variant).
-/
import PPV.Model.GroupSum
import PPV.Lemmas.GroupNp
import Mathlib.Data.List.Perm.Basic
import Mathlib.Algebra.BigOperators.Group.List.Basic
import Mathlib.Tactic.Ring
import Mathlib.Tactic.SplitIfs
import Mathlib.Algebra.Ring.Int.Defs

namespace PPV.Props.C06
open PPV.Model.GroupSum

variable {R : Type} [AddCommGroup R]

/-- the bucket accumulation (numba variant) computes, for every key, the sum of the values carrying it -/
theorem bucketAcc_eq_sumOf (pairs : List (Nat × R)) (k : Nat) : bucketAcc pairs k = sumOf pairs k := by
  unfold bucketAcc sumOf
  have gen : ∀ (l : List (Nat × R)) (acc : Nat → R),
      (l.foldl (fun acc p => fun i => if i = p.1 then acc i + p.2 else acc i) acc) k
        = acc k + ((l.filter (fun p => p.1 == k)).map Prod.snd).sum := by
    intro l
    induction l with
    | nil => intro acc; simp
    | cons p t ih =>
      intro acc
      simp only [List.foldl_cons, ih]
      by_cases h : p.1 = k
      · simp [h, add_assoc]
      · have h' : ¬ k = p.1 := fun e => h e.symm
        simp [h, h']
  simpa using gen pairs (fun _ => 0)

/-- **numba variant = specification**, for every list of (label, value) pairs (labels below 2³¹ in the
    code because of the int32 cast) -/
theorem groupsum_bucket_eq_spec (pairs : List (Nat × R)) : groupBucket pairs = groupSpec pairs := by
  unfold groupBucket groupSpec
  apply List.map_congr_left
  intro k _
  rw [bucketAcc_eq_sumOf]

/-- **numpy variant = specification**: a stable sort followed by one sum per run of equal labels yields, for every list
    of (label, value) pairs, the ascending distinct labels with the sum of the values carrying each -/
theorem groupsum_np_eq_spec (pairs : List (Nat × R)) : groupNp pairs = groupSpec pairs :=
  PPV.Lemmas.GroupNp.groupNp_eq_spec pairs

/-- the former implementation (differences of one running total over the whole array) computes the same in exact
    arithmetic — the two differ only in floating point, where the running total's rounding error reached every later group;
    that float-level defect was repaired (fix 934215f) and is guarded by the accuracy test of the correspondence check -/
theorem groupsum_np_cumsum_eq_spec (pairs : List (Nat × R)) : groupNpCumsum pairs = groupSpec pairs :=
  PPV.Lemmas.GroupNp.groupNpCumsum_eq_spec pairs

/-- hence the two engines' grouped sums agree on every input -/
theorem groupsum_np_eq_numba (pairs : List (Nat × R)) : groupNp pairs = groupBucket pairs := by
  rw [groupsum_np_eq_spec, groupsum_bucket_eq_spec]

/-- the per-key sum does not depend on the order of the rows -/
theorem sumOf_perm (p q : List (Nat × R)) (h : p.Perm q) (k : Nat) : sumOf p k = sumOf q k := by
  unfold sumOf
  exact ((h.filter _).map _).sum_eq

/-- the key list does not depend on the order of the rows either (same ascending, duplicate-free list) -/
theorem mem_insertBy {β : Type} (key : β → Nat) (x y : β) (l : List β) : y ∈ insertBy key x l ↔ y = x ∨ y ∈ l := by
  induction l with
  | nil => simp [insertBy]
  | cons a t ih =>
    simp only [insertBy]
    split_ifs
    · simp
    · simp only [List.mem_cons, ih]; tauto

theorem mem_isortBy {β : Type} (key : β → Nat) (y : β) (l : List β) : y ∈ isortBy key l ↔ y ∈ l := by
  induction l with
  | nil => simp [isortBy]
  | cons a t ih => simp only [isortBy, mem_insertBy, ih, List.mem_cons]

theorem mem_dedup (y : Nat) (l : List Nat) : y ∈ dedup l ↔ y ∈ l := by
  induction l with
  | nil => simp [dedup]
  | cons a t ih =>
    simp only [dedup, List.mem_cons, List.mem_filter, ih, bne_iff_ne, ne_eq]
    by_cases h : y = a <;> simp [h]

theorem mem_keysOf (k : Nat) (l : List Nat) : k ∈ keysOf l ↔ k ∈ l := by
  unfold keysOf; rw [mem_isortBy, mem_dedup]

theorem keysOf_perm_mem (a b : List Nat) (h : a.Perm b) (k : Nat) : k ∈ keysOf a ↔ k ∈ keysOf b := by
  rw [mem_keysOf, mem_keysOf]; exact h.mem_iff

/-- **row-order independence of grouped sums**: permuting the rows changes neither which keys are reported
    nor any reported sum -/
theorem groupsum_perm (p q : List (Nat × R)) (h : p.Perm q) (k : Nat) :
    (k ∈ keysOf (p.map Prod.fst) ↔ k ∈ keysOf (q.map Prod.fst)) ∧ sumOf p k = sumOf q k :=
  ⟨keysOf_perm_mem _ _ (h.map _) k, sumOf_perm p q h k⟩

/-- **relabelling**: under an injective relabelling `σ` the sum reported for `σ k` is the sum formerly
    reported for `k` -/
theorem sumOf_relabel (pairs : List (Nat × R)) (σ : Nat → Nat) (hσ : Function.Injective σ) (k : Nat) :
    sumOf (pairs.map fun p => (σ p.1, p.2)) (σ k) = sumOf pairs k := by
  unfold sumOf
  induction pairs with
  | nil => simp
  | cons p t ih =>
    simp only [List.map_cons, List.filter_cons]
    by_cases h : p.1 = k
    · simp [h, ih]
    · have : σ p.1 ≠ σ k := fun e => h (hσ e)
      simp [h, this, ih]

/-- **lookup under relabelling**: the position found for label `σ l` in the relabelled index column is the
    position of `l` in the original one (for injective `σ`) -/
theorem lookup_relabel (labels : List Nat) (σ : Nat → Nat) (hσ : Function.Injective σ) (l : Nat) :
    lookupPos (labels.map σ) (σ l) = lookupPos labels l := by
  unfold lookupPos
  induction labels with
  | nil => simp
  | cons a t ih =>
    simp only [List.map_cons, List.idxOf?_cons]
    by_cases h : a = l
    · simp [h]
    · have : σ a ≠ σ l := fun e => h (hσ e)
      simp [h, this, ih]

/-- lookup returns the row that carries the label -/
theorem lookup_correct (labels : List Nat) (l pos : Nat) (h : lookupPos labels l = some pos) :
    labels[pos]? = some l := by
  unfold lookupPos at h
  obtain ⟨hlt, heq, _⟩ := List.idxOf?_eq_some_iff.1 h
  simp [hlt, heq]

/-- non-vacuity / sanity on concrete data: all three implementations agree with the specification -/
example : groupNp [(5, (1:Int)), (2, 2), (5, 3), (9, 4), (2, -7)] = [(2, -5), (5, 4), (9, 4)] ∧
    groupBucket [(5, (1:Int)), (2, 2), (5, 3), (9, 4), (2, -7)] = [(2, -5), (5, 4), (9, 4)] ∧
    groupSpec [(5, (1:Int)), (2, 2), (5, 3), (9, 4), (2, -7)] = [(2, -5), (5, 4), (9, 4)] := by decide

end PPV.Props.C06
