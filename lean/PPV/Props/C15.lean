/-
  C15 — saving and loading a network loses nothing (pandapipes-owned part of the codec).

  Model: `Model/Codec.lean`.  The table codec (pandas / pandapower) is a parameter with its round-trip law
  as hypothesis; everything pandapipes adds — property classes, fluid, net-level entries — is proved to
  round-trip for every net.
-/
import PPV.Model.Codec
import Mathlib.Tactic.Cases

namespace PPV.Props.C15
open PPV.Model.Codec

/-- every fluid property class survives `to_dict` / `from_dict` with all the data it is made of -/
theorem decode_encode_prop (p : FProp) : decProp (encProp p) = some p := by
  cases p with
  | inter x y e => cases e <;> simp [encProp, decProp, field]
  | const v w => simp [encProp, decProp, field]
  | lin s o => simp [encProp, decProp, field]
  | poly c ci => simp [encProp, decProp, field]
  | suth e t ts => simp [encProp, decProp, field]

theorem decList_map {A : Type} (enc : A → J) (dec : J → Option A) (h : ∀ a, dec (enc a) = some a)
    (l : List (String × A)) : decList dec (l.map (fun p => (p.1, enc p.2))) = some l := by
  induction l with
  | nil => rfl
  | cons a t ih =>
    obtain ⟨k, v⟩ := a
    simp only [List.map_cons, decList, h v, ih]

/-- **the whole net document round-trips** (name, sector, user options, component list, fluid with all its
    properties, all tables) provided the table codec does -/
theorem decode_encode_net {T : Type} (encT : T → J) (decT : J → Option T) (hT : ∀ t, decT (encT t) = some t)
    (n : NetDoc T) : decNet decT (encNet encT n) = some n := by
  unfold decNet encNet
  simp only [decList_map encProp decProp decode_encode_prop, decList_map encT decT hT]

/-- internal entries (keys starting with an underscore) are never written, everything else is -/
theorem net_keys_filter (keys : List String) (k : String) :
    k ∈ netKeys keys ↔ k ∈ keys ∧ k.startsWith "_" = false := by
  simp [netKeys]

/-- non-vacuity: a polynomial property (the class that used to be lost) round-trips -/
example : decProp (encProp (.poly [1, 2, 3] [1/3, 1, 3, 0])) = some (.poly [1, 2, 3] [1/3, 1, 3, 0]) :=
  decode_encode_prop _

end PPV.Props.C15
