/-
  C13 — each time-series step equals a stand-alone calculation with that step's inputs.

  Model: `Model/TimeSeries.lean` (hand-written; pandapower's `run_time_step` / `ConstControl` / `OutputWriter`
  are library code whose law — controllers overwrite every controlled cell from the profile row — is a
  hypothesis, exercised by the search), `Gen/Wiring.lean` (exception classes registered by the loops,
  regenerated from the source on every run).
-/
import PPV.Model.TimeSeries
import PPV.Gen.Wiring
import Mathlib.Tactic.Cases

namespace PPV.Props.C13
open PPV.Model.TimeSeries

variable {Net Row Res : Type}

/-- the controllers overwrite: what a step writes does not depend on what an earlier step wrote -/
def Overwrites (S : Sys Net Row Res) : Prop := ∀ n r r', S.apply (S.apply n r) r' = S.apply n r'

/-- **each logged step equals the stand-alone calculation** with that step's profile values on the original
    net — for any list of time steps (any order, any subset, repetitions), independent of all preceding
    steps, diverged ones included -/
theorem logged_eq_standalone (S : Sys Net Row Res) (h : Overwrites S) (n0 : Net) (rows : List Row) :
    loopContinue S n0 rows = rows.map (fun r => S.run (S.apply n0 r)) := by
  have gen : ∀ (rows : List Row) (n : Net), (∀ r, S.apply n r = S.apply n0 r) →
      loopContinue S n rows = rows.map (fun r => S.run (S.apply n0 r)) := by
    intro rows
    induction rows with
    | nil => intro n _; rfl
    | cons r t ih =>
      intro n hn
      simp only [loopContinue, step, List.map_cons, hn r]
      congr 1
      apply ih
      intro r'
      rw [← hn r, h]; exact hn r'
  exact gen rows n0 (fun _ => rfl)

/-- a diverged step is reported as such (logged `none`) exactly when the stand-alone calculation diverges, and
    with `continue_on_divergence` it does not alter any other step's log -/
theorem divergence_does_not_leak (S : Sys Net Row Res) (h : Overwrites S) (n0 : Net) (rows : List Row) (i : Nat)
    (hi : i < rows.length) :
    (loopContinue S n0 rows)[i]? = some (S.run (S.apply n0 rows[i])) := by
  rw [logged_eq_standalone S h n0 rows]
  simp [hi]

/-- without `continue_on_divergence` the log is the prefix of the stand-alone results up to and including the
    first diverged step -/
theorem stop_is_prefix (S : Sys Net Row Res) (h : Overwrites S) (n0 : Net) (rows : List Row) :
    (loopStop S n0 rows).IsPrefix (rows.map (fun r => S.run (S.apply n0 r))) ∧
    (∀ o ∈ (loopStop S n0 rows).dropLast, o ≠ none) := by
  have gen : ∀ (rows : List Row) (n : Net), (∀ r, S.apply n r = S.apply n0 r) →
      (loopStop S n rows).IsPrefix (rows.map (fun r => S.run (S.apply n0 r))) ∧
      (∀ o ∈ (loopStop S n rows).dropLast, o ≠ none) := by
    intro rows
    induction rows with
    | nil => intro n _; simp [loopStop]
    | cons r t ih =>
      intro n hn
      simp only [loopStop, step, List.map_cons, hn r]
      cases hrun : S.run (S.apply n0 r) with
      | none => simp
      | some x =>
        have hn' : ∀ r', S.apply (S.apply n0 r) r' = S.apply n0 r' := fun r' => h n0 r r'
        obtain ⟨h1, h2⟩ := ih (S.apply n0 r) hn'
        refine ⟨?_, ?_⟩
        · simpa using h1
        · intro o ho
          cases hl : loopStop S (S.apply n0 r) t with
          | nil => simp [hl] at ho
          | cons a l =>
            rw [hl, List.dropLast_cons_cons] at ho
            rcases List.mem_cons.1 ho with rfl | ho'
            · simp
            · apply h2; rw [hl]; exact ho'
  exact gen rows n0 (fun _ => rfl)

/-- **wiring**: every loop (plain and multi-energy, time series and control) registers
    `PipeflowNotConverged` as the error that marks a diverged step -/
theorem pipeflow_error_registered :
    ((PPV.Gen.Wiring.errors.filter (fun p => p.1 == "timeseries" || p.1 == "control")).length = 2 ∧
     (PPV.Gen.Wiring.errors.filter (fun p => p.1 == "timeseries" || p.1 == "control")).all
        (fun p => p.2.contains "PipeflowNotConverged") = true) ∧
    PPV.Gen.Wiring.multinetDelegates = true := by decide

/-- non-vacuity: cells = one number, `apply` overwrites it, `run` fails on negative input -/
example : Overwrites (⟨fun _ r => r, fun n => if n < 0 then none else some (2 * n)⟩ : Sys Int Int Int) := by
  intro n r r'; rfl

end PPV.Props.C13
