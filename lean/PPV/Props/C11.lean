/-
  C11 — heat exchangers, consumers and circulation pumps report consistent heat duties.

  Theorems over the thermal kernel generated from the current source (the heat-extraction term of the
  branch equation) and a graph-level energy-closure statement (telescoping over any loop network with
  the incidence algebra of Lemmas/Sums.lean).
-/
import PPV.Lemmas.Sums
import PPV.Lemmas.KTac
import PPV.Gen.Kernels
import PPV.Gen.Components
import Mathlib.Tactic.Positivity

open Finset BigOperators
namespace PPV.Props.C11
open PPV.Lemmas PPV PPV.Gen PPV.Gen.Kernels PPV.Gen.Components

/-- **duty of a lumped heat element.** For a flowing branch without length (heat exchanger, heat consumer:
    no loss to ambient, no temperature lift) the generated thermal residual vanishes exactly when the
    extracted heat equals `|ṁ|·c̄_p·(T_in − T_out)`. -/
theorem lumped_duty (br : BranchRow ℝ) (tin tout tnt cpn cpb amb : ℝ)
    (hflow : ¬ (|br.MDOTINIT - 0| ≤ 1e-10 + 1e-10 * |(0:ℝ)|)) (hL : br.LENGTH = 0) (hTL : br.TL = 0)
    (hcp : 0 < cpb) :
    (thermalBranchNp br tin tout tnt cpn cpb amb).fb = 0 ↔ br.QEXT = |br.MDOTINIT| * cpb * (tin - tout) := by
  have hf : (1e-10 : ℝ) < |br.MDOTINIT| := by
    rw [not_le] at hflow; norm_num at hflow ⊢; linarith
  have hnle : ¬ |br.MDOTINIT| ≤ (1e-10 : ℝ) := not_le.2 hf
  have hm : 0 < |br.MDOTINIT| := lt_trans (by norm_num) hf
  have hne : cpb * |br.MDOTINIT| ≠ 0 := ne_of_gt (mul_pos hcp hm)
  simp only [thermalBranchNp, hL, hTL]
  kunfold
  simp [hf, hnle]
  constructor
  · intro h
    have : br.QEXT / (cpb * |br.MDOTINIT|) = tin - tout := by linarith
    rw [div_eq_iff hne] at this
    rw [this]; ring
  · intro h
    rw [h]
    field_simp
    ring

/-- temperature drop prescribed together with the mass flow: the duty the code derives,
    `Q = c̄_p·ṁ·ΔT` (`adaption_before_derivatives_thermal`, mode MF_DT), makes the outlet temperature drop by
    exactly `ΔT` -/
theorem mf_dt_setpoint (br : BranchRow ℝ) (tin tout tnt cpn cpb amb dT : ℝ)
    (hflow : ¬ (|br.MDOTINIT - 0| ≤ 1e-10 + 1e-10 * |(0:ℝ)|)) (hL : br.LENGTH = 0) (hTL : br.TL = 0) (hcp : 0 < cpb)
    (hQ : br.QEXT = cpb * |br.MDOTINIT| * dT)
    (hres : (thermalBranchNp br tin tout tnt cpn cpb amb).fb = 0) : tin - tout = dT := by
  have h := (lumped_duty br tin tout tnt cpn cpb amb hflow hL hTL hcp).1 hres
  have hf : (1e-10 : ℝ) < |br.MDOTINIT| := by
    rw [not_le] at hflow; norm_num at hflow ⊢; linarith
  have hm : 0 < |br.MDOTINIT| := lt_trans (by norm_num) hf
  rw [hQ] at h
  have hne : cpb * |br.MDOTINIT| ≠ 0 := ne_of_gt (mul_pos hcp hm)
  have : cpb * |br.MDOTINIT| * dT = cpb * |br.MDOTINIT| * (tin - tout) := by rw [h]; ring
  exact (mul_left_cancel₀ hne this).symm


/-! ### the duties the heat-consumer class derives (generated from `HeatConsumer.adaption_*`) -/

/-- mode "mass flow and temperature drop": the duty written into `QEXT` is `c̄_p·ṁ·ΔT` -/
theorem mf_dt_duty_generated (br : BranchRow ℝ) (nf nt : NodeRow ℝ) (cp dT tr : ℝ) :
    (hcBeforeThermal br nf nt 1 cp dT tr).QEXT = cp * br.MDOTINIT * dT := by
  simp only [hcBeforeThermal]
  kunfold
  try norm_num

/-- mode "mass flow and return temperature": the duty is `c̄_p·ṁ·(T_in − T_return)`, `T_in` being the temperature of
    the node the flow comes from (direction-corrected) -/
theorem mf_tr_duty_generated (br : BranchRow ℝ) (nf nt : NodeRow ℝ) (cp dT tr : ℝ) :
    (hcBeforeThermal br nf nt 2 cp dT tr).QEXT =
      cp * br.MDOTINIT * ((if br.FROM_NODE_T_SWITCHED ≠ 0 then nt.TINIT else nf.TINIT) - tr) := by
  simp only [hcBeforeThermal]
  kunfold
  try norm_num

/-- every other mode keeps the duty it already has; and each row's duty depends on that row only (the generated
    definition is per row — a construct coupling the rows, such as an `elif` between the mode blocks, is rejected by
    the translator) -/
theorem other_modes_keep_duty (br : BranchRow ℝ) (nf nt : NodeRow ℝ) (mode cp dT tr : ℝ) (h1 : mode ≠ 1) (h2 : mode ≠ 2) :
    (hcBeforeThermal br nf nt mode cp dT tr).QEXT = br.QEXT := by
  simp only [hcBeforeThermal]
  kunfold
  simp [h1, h2]

/-- mode "heat and temperature drop": the mass flow written is `Q/(c̄_p·ΔT)` -/
theorem qe_dt_mass_generated (br : BranchRow ℝ) (cp dT : ℝ) :
    (hcBeforeHydraulic br 4 cp dT).MDOTINIT = br.QEXT / (cp * dT) := by
  simp only [hcBeforeHydraulic]
  kunfold

/-- **set-point, code to result (MF_DT)**: with the duty written by the current class and a vanishing thermal residual,
    a consumer with forward flow cools the fluid by exactly its `deltat_k` -/
theorem mf_dt_setpoint_of_code (br : BranchRow ℝ) (nf nt : NodeRow ℝ) (tin tout tnt cpn cp amb dT tr : ℝ)
    (hm : (1e-10 : ℝ) < br.MDOTINIT) (hL : br.LENGTH = 0) (hTL : br.TL = 0) (hcp : 0 < cp)
    (hQ : br.QEXT = (hcBeforeThermal br nf nt 1 cp dT tr).QEXT)
    (hres : (thermalBranchNp br tin tout tnt cpn cp amb).fb = 0) : tin - tout = dT := by
  have hpos : 0 < br.MDOTINIT := lt_trans (by norm_num) hm
  have habs : |br.MDOTINIT| = br.MDOTINIT := abs_of_pos hpos
  refine mf_dt_setpoint br tin tout tnt cpn cp amb dT ?_ hL hTL hcp ?_ hres
  · rw [sub_zero, abs_zero, mul_zero, add_zero, habs]; exact not_le.2 hm
  · rw [hQ, mf_dt_duty_generated, habs]

/-! ### energy closure of a loop -/

variable {n b : ℕ}

/-- **loop closure.** On any network in which mass is conserved at every node (`netIn m i = 0`: closed loops,
    the circulation pump being one of the branches) and with one heat capacity `c`, the enthalpy changes
    over all branches sum to zero: `Σ_k ṁ_k·c·(T(to_k) − T(from_k)) = 0`.  Hence what the pump branch adds
    equals what consumers, exchangers and pipe losses take out. -/
theorem loop_energy_closure (fn tn : Fin b → Fin n) (m : Fin b → ℝ) (T : Fin n → ℝ) (c : ℝ)
    (hbal : ∀ i, netIn fn tn m i = 0) :
    ∑ k, m k * c * (T (tn k) - T (fn k)) = 0 := by
  have h := incidence_swap fn tn m (fun i => c * T i)
  simp only [hbal, mul_zero, Finset.sum_const_zero] at h
  have e : ∑ k, m k * c * (T (tn k) - T (fn k)) = ∑ k, m k * (c * T (tn k) - c * T (fn k)) :=
    Finset.sum_congr rfl (fun k _ => by ring)
  rw [e]; exact h.symm

/-- splitting the branches into the pump `k₀` and the rest: pump duty = minus the sum of all other
    enthalpy changes -/
theorem pump_duty_eq_extracted (fn tn : Fin b → Fin n) (m : Fin b → ℝ) (T : Fin n → ℝ) (c : ℝ)
    (hbal : ∀ i, netIn fn tn m i = 0) (k0 : Fin b) :
    m k0 * c * (T (tn k0) - T (fn k0)) = - ∑ k ∈ univ.erase k0, m k * c * (T (tn k) - T (fn k)) := by
  have h := loop_energy_closure fn tn m T c hbal
  rw [← Finset.add_sum_erase _ _ (mem_univ k0)] at h
  linarith

/-- non-vacuity: a two-node loop (pump 0: node 0→1, consumer 1: node 1→0) with flow 1 kg/s conserves mass -/
example : ∀ i : Fin 2, netIn (fun k : Fin 2 => if k = 0 then (0 : Fin 2) else 1) (fun k => if k = 0 then 1 else 0)
    (fun _ => (1:ℝ)) i = 0 := by
  intro i; fin_cases i <;> simp [netIn, Fin.sum_univ_two]

end PPV.Props.C11
