/-
  C16 — element creation keeps the net referentially intact, atomic and as documented.

  `Gen/CreateFlows.lean` is regenerated from create.py on every run (ordered check / write primitives of
  every create function with calls to other create functions inlined; signature vs docstring defaults).
-/
import PPV.Model.Create
import Mathlib.Tactic.Cases
import Mathlib.Tactic.SplitIfs

namespace PPV.Props.C16
open PPV.Model.Create PPV.Gen.CreateFlows

/-- **checks precede row writes** in every create function of the current source -/
theorem checks_precede_writes : flows.all (fun f => checksPrecedeWrites (parse f.2)) = true := by decide

/-- every create function performs at least one check before it writes and at least one write -/
theorem every_create_checks_and_writes :
    flows.all (fun f => (parse f.2).contains .K && (parse f.2).contains .W) = true := by decide

/-- a flow without checks cannot raise -/
theorem no_check_no_raise (fails : Nat → Bool) (t : List Prim) (k : Nat) (e : Effect)
    (hk : t.contains .K = false) (he : e.raised = false) : (go fails t k e).raised = false := by
  induction t generalizing k e with
  | nil => simpa [go] using he
  | cons d u ih =>
    have hu : u.contains .K = false := by
      simp only [List.contains_cons, Bool.or_eq_false_iff] at hk; exact hk.2
    cases d with
    | A => simp only [go]; exact ih k _ hu he
    | W => simp only [go]; exact ih k _ hu he
    | K => simp at hk

/-- **atomicity of row writes**: if checks precede writes, a call whose k-th check fails has written no row,
    whichever check fails — for every flow word, not only the generated ones -/
theorem failed_call_writes_no_row (flow : List Prim) (h : checksPrecedeWrites flow = true) (fails : Nat → Bool)
    (hr : (exec flow fails).raised = true) : (exec flow fails).rowsWritten = 0 := by
  have gen : ∀ (fl : List Prim) (k : Nat) (e : Effect), checksPrecedeWrites fl = true → e.rowsWritten = 0 →
      e.raised = false → (go fails fl k e).raised = true → (go fails fl k e).rowsWritten = 0 := by
    intro fl
    induction fl with
    | nil => intro k e _ _ hf hr; simp only [go] at hr; rw [hf] at hr; cases hr
    | cons c t ih =>
      intro k e hc h0 hf hr
      cases c with
      | A =>
        simp only [go] at hr ⊢
        exact ih k _ (by simpa [checksPrecedeWrites] using hc) h0 hf hr
      | W =>
        simp only [checksPrecedeWrites, Bool.not_eq_true'] at hc
        simp only [go] at hr
        have := no_check_no_raise fails t k { e with rowsWritten := e.rowsWritten + 1 } hc hf
        rw [this] at hr; cases hr
      | K =>
        simp only [go] at hr ⊢
        split_ifs at hr ⊢ with hfk
        · exact h0
        · exact ih (k + 1) e (by simpa [checksPrecedeWrites] using hc) h0 hf hr
  exact gen flow 0 ⟨false, false, 0⟩ h rfl rfl hr

/-- hence: no create function of the current source leaves a row behind a rejected call -/
theorem create_functions_row_atomic :
    ∀ f ∈ flows, ∀ fails : Nat → Bool, (exec (parse f.2) fails).raised = true → (exec (parse f.2) fails).rowsWritten = 0 := by
  intro f hf fails hr
  have := List.all_eq_true.1 checks_precede_writes f hf
  exact failed_call_writes_no_row (parse f.2) this fails hr

/-- the *full* atomicity statement ("leaves the whole net unchanged") is false of the code: most create
    functions call `add_new_component` before their checks, so on a net that does not yet have the element
    table a rejected call leaves a new empty table behind (witness; replayed on the real code by the search) -/
theorem table_creation_precedes_checks_witness :
    ∃ f ∈ flows, f.1 = "create_sink" ∧ checksPrecedeTable (parse f.2) = false ∧
      exec (parse f.2) (fun k => k == 1) = ⟨true, true, 0⟩ := by
  refine ⟨("create_sink", "AKKW"), by decide, rfl, by decide, by decide⟩

/-- **documented defaults**: every default stated in a create function's docstring is the default of its
    signature -/
theorem sig_defaults_eq_doc : defaults.all (fun d => d.2.2.1 == d.2.2.2) = true := by decide

end PPV.Props.C16
