/-
  C18 — the topology graph agrees with the solver about what is connected.

  Model: `Model/NxGraph.lean` (edge list of `create_nxgraph`, tied to the real function by a correspondence
  on the edge multiset for all include/respect-status combinations) and C04's solver-side search.
-/
import PPV.Model.NxGraph
import PPV.Props.C04
import Mathlib.Logic.Relation
import Mathlib.Data.List.Count

namespace PPV.Props.C18
open PPV.Model.NxGraph PPV.Model.Connectivity

/-- a junction–pipe valve never contributes an edge of its own -/
theorem pipe_valve_adds_no_edge (bs : List GBranch) (rs rv : Bool) (dead : List Nat) (b : GBranch)
    (hb : b.pipeValve = true) : ∀ e ∈ edges bs rs rv dead, ¬ (e.table = b.table ∧ e.idx = b.idx ∧ e.u = b.fj ∧ e.v = b.tj ∧
      b ∈ bs ∧ (∀ b' ∈ bs, b'.table = b.table → b'.idx = b.idx → b' = b)) := by
  intro e he
  simp only [edges, List.mem_map, List.mem_filter] at he
  obtain ⟨b0, ⟨hb0, hcond⟩, rfl⟩ := he
  rintro ⟨h1, h2, _, _, hmem, huniq⟩
  have : b0 = b := huniq b0 hb0 h1 h2
  subst this
  simp [hb] at hcond

/-- a closed junction–pipe valve removes the edge of its pipe (when valve status is respected) -/
theorem closed_pipe_valve_cuts_pipe (bs : List GBranch) (rs : Bool) (dead : List Nat) (v : GBranch)
    (hv : v ∈ bs) (hpv : v.pipeValve = true) (hclosed : v.inService = false) :
    ∀ e ∈ edges bs rs true dead, ¬ (e.table = "pipe" ∧ e.idx = v.tj) := by
  intro e he
  simp only [edges, List.mem_map, List.mem_filter] at he
  obtain ⟨b0, ⟨_, hcond⟩, rfl⟩ := he
  rintro ⟨h1, h2⟩
  have hcut : (cutPipes bs).contains b0.idx = true := by
    simp only [cutPipes, List.contains_eq_mem, List.mem_map, List.mem_filter, decide_eq_true_eq]
    exact ⟨v, ⟨hv, by simp [hpv, hclosed]⟩, h2.symm⟩
  simp only [hcut, if_true] at hcond
  simp at hcond
  exact hcond.1.2 h1

/-- element identities are unique: (table, index) determines the row -/
def UniqueIds (bs : List GBranch) : Prop := ∀ b ∈ bs, ∀ b' ∈ bs, b.table = b'.table → b.idx = b'.idx → b = b'

theorem edges_nodup (bs : List GBranch) (rs rv : Bool) (dead : List Nat) (hnd : bs.Nodup) (hu : UniqueIds bs) :
    (edges bs rs rv dead).Nodup := by
  unfold edges
  apply List.Nodup.map_on
  · intro x hx y hy hxy
    have hx' := (List.mem_filter.1 hx).1
    have hy' := (List.mem_filter.1 hy).1
    have h1 : x.table = y.table := by injection hxy
    have h2 : x.idx = y.idx := by injection hxy
    exact hu x hx' y hy' h1 h2
  · exact hnd.filter _

/-- **one edge per junction-to-junction branch element**: an in-service element between two in-service
    junctions (not a pipe cut by a closed valve) appears as exactly one edge between its two junctions,
    provided element identities (table, index) are unique -/
theorem one_edge_per_jj_branch (bs : List GBranch) (rs rv : Bool) (dead : List Nat) (b : GBranch)
    (hnd : bs.Nodup) (hu : UniqueIds bs) (hb : b ∈ bs) (hjj : b.pipeValve = false) (hserv : b.inService = true)
    (halive : dead.contains b.fj = false ∧ dead.contains b.tj = false)
    (hnotcut : ¬ (b.table = "pipe" ∧ (cutPipes bs).contains b.idx = true)) :
    (edges bs rs rv dead).count ⟨b.fj, b.tj, b.table, b.idx⟩ = 1 := by
  have hkeep : (!b.pipeValve && (!rs || b.inService) &&
      !(b.table == "pipe" && (if rv = true then cutPipes bs else []).contains b.idx) &&
      !(dead.contains b.fj || dead.contains b.tj)) = true := by
    have hc : (b.table == "pipe" && (if rv = true then cutPipes bs else []).contains b.idx) = false := by
      by_cases hr : rv = true
      · simp only [hr, if_true]
        by_cases ht : b.table = "pipe"
        · have : (cutPipes bs).contains b.idx = false := by
            by_contra hcon; exact hnotcut ⟨ht, by simpa using hcon⟩
          rw [this]; simp
        · have : (b.table == "pipe") = false := by simpa using ht
          rw [this]; rfl
      · have : rv = false := by simpa using hr
        subst this; simp
    rw [hjj, hserv, halive.1, halive.2, hc]; simp
  have hmem : (⟨b.fj, b.tj, b.table, b.idx⟩ : Edge) ∈ edges bs rs rv dead := by
    unfold edges
    exact List.mem_map.2 ⟨b, List.mem_filter.2 ⟨hb, hkeep⟩, rfl⟩
  exact List.count_eq_one_of_mem (edges_nodup bs rs rv dead hnd hu) hmem

/-! ### graph components vs. the solver's supply search -/

/-- when no branch is directed and none is a flow/return connector, the solver's supply relation is symmetric:
    its reachability classes are exactly the connected components of the undirected graph on the same branches -/
theorem step_symmetric (c : ConnIn n b) (hd : ∀ k, c.directed k = false) (u v : Fin n) :
    C04.Step c u v → C04.Step c v u := by
  rintro ⟨k, ha, hf, h | h⟩
  · exact ⟨k, ha, hf, Or.inr ⟨hd k, h.2, h.1⟩⟩
  · exact ⟨k, ha, hf, Or.inl ⟨h.2.2, h.2.1⟩⟩

/-- **unsupplied = no pressure result** (undirected regime): a junction is marked supplied by the solver iff it lies
    in the same connected component (equivalence closure of the branch relation) as an in-service pressure-fixing
    junction — which is what `unsupplied_junctions` computes on the graph built from the same branches -/
theorem supplied_iff_same_component (c : ConnIn n b) (hd : ∀ k, c.directed k = false) (v : Fin n) :
    c.nodesConnected v = true ↔
      ∃ s, c.isSlack s = true ∧ c.nodeActive s = true ∧ Relation.EqvGen (C04.Step c) s v := by
  have rev : ∀ a b', Relation.ReflTransGen (C04.Step c) a b' → Relation.ReflTransGen (C04.Step c) b' a := by
    intro a b' hab
    induction hab with
    | refl => exact Relation.ReflTransGen.refl
    | tail _ hstep ih2 => exact Relation.ReflTransGen.head (step_symmetric c hd _ _ hstep) ih2
  have toE : ∀ a b', Relation.ReflTransGen (C04.Step c) a b' → Relation.EqvGen (C04.Step c) a b' := by
    intro a b' hab
    induction hab with
    | refl => exact Relation.EqvGen.refl _
    | tail _ hstep ih2 => exact Relation.EqvGen.trans _ _ _ ih2 (Relation.EqvGen.rel _ _ hstep)
  have toR : ∀ a b', Relation.EqvGen (C04.Step c) a b' → Relation.ReflTransGen (C04.Step c) a b' := by
    intro a b' hab
    induction hab with
    | rel x y hxy => exact Relation.ReflTransGen.single hxy
    | refl x => exact Relation.ReflTransGen.refl
    | symm x y _ ih => exact rev _ _ ih
    | trans x y z _ _ ih1 ih2 => exact ih1.trans ih2
  rw [C04.node_supplied_iff]
  constructor
  · rintro ⟨s, h1, h2, h3⟩
    exact ⟨s, h1, h2, toE _ _ h3⟩
  · rintro ⟨s, h1, h2, h3⟩
    exact ⟨s, h1, h2, toR _ _ h3⟩

/-- non-vacuity: two pipes and an open junction–pipe valve on the second one -/
example : edges [⟨"pipe", 0, 1, 2, true, false⟩, ⟨"pipe", 1, 2, 3, true, false⟩, ⟨"valve", 0, 2, 1, true, true⟩] true true []
    = [⟨1, 2, "pipe", 0⟩, ⟨2, 3, "pipe", 1⟩] := by decide

end PPV.Props.C18
