/-
  C20 — multi-energy coupling conserves energy and equals the decoupled calculation.

  `Gen/Coupling.lean` is regenerated from `multinet/control/controller/multinet_control.py` on every run
  (conversion factors and the arithmetic of the three controllers' `control_step`); theorems are over ℝ.
-/
import PPV.Lemmas.KTac
import PPV.Gen.Coupling
import PPV.Model.Multinet

namespace PPV.Props.C20
open PPV PPV.Gen.Coupling PPV.Model.Multinet

/-- the two unit conversions are inverse: MW → kg/s → MW at the same heating value is the identity -/
theorem factors_inverse (hhv : ℝ) (h : hhv ≠ 0) : p2gFactor hhv * g2pFactor hhv = 1 := by
  simp only [p2gFactor, g2pFactor]
  kunfold
  norm_num only
  field_simp

/-- **round trip**: converting power to gas and the gas back to power returns the product of the efficiencies -/
theorem p2g_g2p_roundtrip (p hhv eta1 eta2 : ℝ) (h : hhv ≠ 0) :
    g2p_power_gen (p2g_mdot_kg_per_s p (p2gFactor hhv) eta1) (g2pFactor hhv) eta2 = p * (eta1 * eta2) := by
  have hf := factors_inverse hhv h
  simp only [g2p_power_gen, p2g_mdot_kg_per_s]
  calc p * p2gFactor hhv * eta1 * g2pFactor hhv * eta2
      = p * (p2gFactor hhv * g2pFactor hhv) * (eta1 * eta2) := by ring
    _ = p * (eta1 * eta2) := by rw [hf]; ring

/-- what P2G writes is the scaled load times the conversion at the fluid's heating value times the efficiency -/
theorem p2g_written_value (p hhv eta : ℝ) :
    p2g_mdot_kg_per_s p (p2gFactor hhv) eta = p * (1000 / (hhv * 3600)) * eta := by
  simp only [p2g_mdot_kg_per_s, p2gFactor]
  kunfold
  norm_num only

/-- gas-led and power-led operation of the G2P controller are inverse to each other -/
theorem g2p_modes_inverse (m factor eta : ℝ) (hf : factor ≠ 0) (he : eta ≠ 0) :
    g2p_gas_cons (g2p_power_gen m factor eta) factor eta = m := by
  simp only [g2p_gas_cons, g2p_power_gen]
  field_simp

/-- **gas to gas**: the energy flow (mass flow × heating value) leaving equals the efficiency times the energy
    flow entering -/
theorem g2g_energy (m hhv1 hhv2 eta : ℝ) (h2 : hhv2 ≠ 0) :
    g2g_mdot_kg_per_s_out m (g2gFactor hhv1 hhv2) eta * hhv2 = eta * (m * hhv1) := by
  simp only [g2g_mdot_kg_per_s_out, g2gFactor]
  field_simp

/-- **convergence flag**: the multinet is reported converged iff every evaluated member net converged -/
theorem multinet_converged_iff_all (flags : List Bool) : evaluateAll flags = true ↔ ∀ f ∈ flags, f = true := by
  simp [evaluateAll]

/-- the initial run aggregates with `max` instead, which as a function differs from "all" (witness below);
    the difference cannot surface, because pandapower's `net_initialization` lets a non-converging initial run
    raise instead of returning a false flag (probed by the search on every run) -/
theorem init_aggregation_differs : initMax [true, false] = true ∧ evaluateAll [true, false] = false := by decide

end PPV.Props.C20
