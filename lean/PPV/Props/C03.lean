/-
  C03 — prescribed pressures, flows, lifts and ratios are met exactly.

  Models: `Model/Assemble.lean` (identity rows of the Newton system; exact correspondence with
  `build_system_matrix`), `Model/FixedNode.lean` (running mean of `set_fixed_node_entries`, compressor
  lift; correspondence with the real functions) and the generated hydraulic kernels.
-/
import PPV.Model.FixedNode
import PPV.Lemmas.Sums
import PPV.Lemmas.KTac
import PPV.Gen.Kernels
import PPV.Gen.Components
import Mathlib.Tactic.FieldSimp
import Mathlib.Tactic.Positivity
import Mathlib.Algebra.BigOperators.Group.List.Basic

namespace PPV.Props.C03
open PPV.Model.Assemble PPV.Model.FixedNode PPV.Lemmas PPV PPV.Gen PPV.Gen.Kernels PPV.Gen.Components

variable {R : Type} [CommRing R] {n b : ℕ}

/-- **fixed pressures.** The row of a pressure-fixing node is the identity with right-hand side 0: the Newton
    correction of its pressure is zero in every iteration, so the prescribed (mean) pressure written at
    initialisation is the reported one, for any step width. -/
theorem slack_pressure_invariant (S : HydSys R n b) (x : HydVec R n b) (hx : S.Solves x) (i : Fin n)
    (hi : S.isSlack i = true) (p : Fin n → R) (α : R) : p i - α * x.p i = p i := by
  have h := hx.1 i
  simp only [HydSys.nodeRow, HydSys.nodeRhs, hi, if_true] at h
  rw [h]; ring

/-- **controlled pressures.** A pressure-controller branch whose own derivatives are zeroed (what
    `PressureControlComponent.adaption_after_derivatives_hydraulic` does) turns its row into the identity on the
    paired controlled node: that node's pressure correction is zero. -/
theorem pc_pressure_invariant (S : HydSys R n b) (x : HydVec R n b) (hx : S.Solves x) (k : Fin b) (j : Fin n)
    (hk : S.isPcBranch k = true) (hpair : S.pcPartner k = some j)
    (h0 : S.jdm k = 0 ∧ S.jdp k = 0 ∧ S.jdp1 k = 0) : x.p j = 0 := by
  have h := hx.2.1 k
  simp only [HydSys.branchRow, HydSys.branchRhs, hk, if_true, hpair, h0.1, h0.2.1, h0.2.2, zero_mul, zero_add] at h
  exact h

/-- every controlled node is paired with some controller branch when their numbers agree (the code pairs
    the k-th PC branch with the k-th PC node; *which* one is irrelevant because all paired rows are
    identities) -/
theorem pc_partner_total (S : HydSys R n b) (hlen : S.pcBranches.length = S.pcNodes.length) (j : Fin n)
    (hj : j ∈ S.pcNodes) : ∃ k, S.isPcBranch k = true ∧ S.pcPartner k = some j := by
  obtain ⟨idx, hidx, hget⟩ := List.getElem_of_mem hj
  have hidx' : idx < S.pcBranches.length := by omega
  refine ⟨S.pcBranches[idx], ?_, ?_⟩
  · have : S.pcBranches[idx] ∈ S.pcBranches := List.getElem_mem hidx'
    exact (List.mem_filter.1 this).2
  · unfold HydSys.pcPartner
    have hnd : S.pcBranches.Nodup := (List.nodup_finRange b).filter _
    have : S.pcBranches.idxOf? S.pcBranches[idx] = some idx := by
      rw [List.idxOf?_eq_some_iff]  -- first occurrence
      refine ⟨hidx', rfl, ?_⟩
      intro m hm
      intro heq
      have := (List.Nodup.getElem_inj_iff hnd).1 (by simpa using heq)
      omega
    rw [this]
    simp [hidx, hget]

/-- **prescribed mass flows.** A branch row with `dF/dm = 1`, zero pressure derivatives and zero residual
    (active flow controller, mass circulation pump, heat consumer with prescribed flow) keeps its flow:
    the correction is zero, so the set mass flow written at initialisation is the reported one. -/
theorem flow_identity_invariant (S : HydSys R n b) (x : HydVec R n b) (hx : S.Solves x) (k : Fin b)
    (hk : S.isPcBranch k = false) (hpair : S.pcPartner k = none)
    (h1 : S.jdm k = 1 ∧ S.jdp k = 0 ∧ S.jdp1 k = 0 ∧ S.lvb k = 0) (m : Fin b → R) (α : R) :
    m k - α * x.m k = m k := by
  have h := hx.2.1 k
  simp only [HydSys.branchRow, HydSys.branchRhs, hk, hpair, h1.1, h1.2.1, h1.2.2.1, h1.2.2.2, one_mul, zero_mul,
    add_zero, Bool.false_eq_true, if_false] at h
  rw [h]; ring

/-- a branch that is no PC branch has no partner -/
theorem no_partner_of_not_pc (S : HydSys R n b) (k : Fin b) (hk : S.isPcBranch k = false) : S.pcPartner k = none := by
  unfold HydSys.pcPartner
  have : k ∉ S.pcBranches := fun h => by simp [HydSys.pcBranches, hk] at h
  have : S.pcBranches.idxOf? k = none := by
    rw [List.idxOf?_eq_none_iff]; exact this
  rw [this]

/-! ### several pressure-fixing elements on one junction: the mean -/

section mean
variable {K : Type} [Field K] [CharZero K]

theorem setEntry_total (s : Fixed K) (T sum : K) (num : Nat) (hnum : 0 < num)
    (h : s.value * (s.count : K) = T) :
    (setEntry s sum num).value * ((setEntry s sum num).count : K) = T + sum := by
  simp only [setEntry]
  have hne : ((num : K) + (s.count : K)) ≠ 0 := by
    have : ((num + s.count : ℕ) : K) ≠ 0 := Nat.cast_ne_zero.2 (by omega)
    simpa [Nat.cast_add] using this
  rw [Nat.cast_add, h]
  field_simp
  ring

theorem setEntries_total (groups : List (K × Nat)) (s : Fixed K) (T : K)
    (h : s.value * (s.count : K) = T) (hpos : ∀ g ∈ groups, 0 < g.2) :
    (setEntries s groups).value * ((setEntries s groups).count : K) = T + (groups.map Prod.fst).sum ∧
    (setEntries s groups).count = s.count + (groups.map Prod.snd).sum := by
  induction groups generalizing s T with
  | nil => simp [setEntries, h]
  | cons g rest ih =>
    have hg : 0 < g.2 := hpos g (List.mem_cons_self ..)
    have hrest : ∀ g' ∈ rest, 0 < g'.2 := fun g' hg' => hpos g' (List.mem_cons_of_mem _ hg')
    have := ih (setEntry s g.1 g.2) (T + g.1) (setEntry_total s T g.1 g.2 hg h) hrest
    simp only [setEntries, List.foldl_cons, List.map_cons, List.sum_cons] at this ⊢
    refine ⟨by rw [this.1]; ring, ?_⟩
    rw [this.2]; simp only [setEntry]; omega

/-- **C03, several fixing elements on one junction.** Whatever the grouping into calls (one per component
    type) and whatever value the junction held before, the stored fixed value is the arithmetic mean of all
    contributing elements' values. -/
theorem fixed_mean (groups : List (K × Nat)) (v0 : K) (hpos : ∀ g ∈ groups, 0 < g.2) (hne : groups ≠ []) :
    (setEntries ⟨v0, 0⟩ groups).value = (groups.map Prod.fst).sum / (((groups.map Prod.snd).sum : ℕ) : K) := by
  obtain ⟨h1, h2⟩ := setEntries_total groups ⟨v0, 0⟩ 0 (by simp) hpos
  have hcnt : (groups.map Prod.snd).sum ≠ 0 := by
    cases groups with
    | nil => exact absurd rfl hne
    | cons g rest =>
      have := hpos g (List.mem_cons_self ..)
      simp only [List.map_cons, List.sum_cons]; omega
  rw [h2] at h1
  simp only [Nat.zero_add, zero_add] at h1
  have hK : (((groups.map Prod.snd).sum : ℕ) : K) ≠ 0 := Nat.cast_ne_zero.2 hcnt
  field_simp
  exact h1

/-- non-vacuity: two external grids (5 bar, 7 bar) in one call and a circulation pump (6 bar) in a second
    call give 6 bar -/
example : (setEntries (⟨3, 0⟩ : Fixed ℚ) [(12, 2), (6, 1)]).value = 6 := by
  norm_num [setEntries, setEntry]

end mean

/-! ### compressor: absolute pressure ratio -/

/-- **C03, compressor.** For a zero-length, loss-free branch whose lift is the compressor rule
    (`p_from,abs·(ratio−1)` for forward flow) a vanishing residual of the generated liquid kernel means
    `p_to,abs = ratio · p_from,abs` up to the hydrostatic term; the same holds for the gas kernel. -/
theorem compressor_ratio (br : BranchRow ℝ) (dl p p1 dh rho ratio : ℝ)
    (hL : br.LENGTH = 0) (hLC : br.LOSS_COEFFICIENT = 0) (hm : ¬ br.MDOTINIT < 0)
    (hPL : br.PL = compressorLift (fun a b => decide (a < b)) p ratio br.MDOTINIT)
    (hres : (hydIncompNp br dl p p1 dh rho).load_vec = 0) :
    p1 = ratio * p + rho * 9.81 * dh / 100000 := by
  simp only [hydIncompNp, hL, hLC, hPL, compressorLift, Constants.GRAVITATION_CONSTANT, Constants.P_CONVERSION] at hres
  kunfold
  simp only [hm, decide_false, Bool.false_eq_true, if_false] at hres
  norm_num at hres
  linarith

theorem compressor_ratio_gas (br : BranchRow ℝ) (nf : NodeRow ℝ) (lam dl p p1 dh K dK dK1 rho rhoN ratio : ℝ)
    (hL : br.LENGTH = 0) (hLC : br.LOSS_COEFFICIENT = 0) (hm : ¬ br.MDOTINIT < 0)
    (hPL : br.PL = compressorLift (fun a b => decide (a < b)) p ratio br.MDOTINIT)
    (hres : (hydCompNp br nf lam dl p p1 dh K dK dK1 rho rhoN).load_vec = 0) :
    p1 = ratio * p + rho * 9.81 * dh / 100000 := by
  simp only [hydCompNp, hL, hLC, hPL, compressorLift, Constants.GRAVITATION_CONSTANT, Constants.P_CONVERSION] at hres
  kunfold
  simp only [hm, decide_false, Bool.false_eq_true, if_false] at hres
  norm_num at hres
  linarith

/-- reverse flow: no lift -/
theorem compressor_reverse_no_lift (p ratio m : ℝ) (hm : m < 0) :
    compressorLift (fun a b => decide (a < b)) p ratio m = 0 := by
  simp [compressorLift, hm]


/-! ### the rows the component classes write (generated from the current `adaption_*` class methods) -/

/-- the lift the current `Compressor.adaption_before_derivatives_hydraulic` writes into `PL` is the compressor rule:
    `p_from,abs·ratio − p_from,abs` for forward flow, nothing for reverse flow -/
theorem compressor_lift_generated (br : BranchRow ℝ) (nf : NodeRow ℝ) (ratio : ℝ) :
    (compressorBeforeHydraulic br nf ratio).PL =
      compressorLift (fun a b => decide (a < b)) (nf.PAMB + nf.PINIT) ratio br.MDOTINIT := by
  simp only [compressorBeforeHydraulic, compressorLift]
  kunfold

/-- **compressor, code to set-point**: with the lift written by the current compressor class and a vanishing residual
    of the generated liquid kernel, the absolute outlet pressure is `ratio ×` the absolute inlet pressure (plus the
    hydrostatic term) -/
theorem compressor_ratio_of_code (br : BranchRow ℝ) (nf : NodeRow ℝ) (dl p1 dh rho ratio : ℝ)
    (hL : br.LENGTH = 0) (hLC : br.LOSS_COEFFICIENT = 0) (hm : ¬ br.MDOTINIT < 0)
    (hPL : br.PL = (compressorBeforeHydraulic br nf ratio).PL)
    (hres : (hydIncompNp br dl (nf.PAMB + nf.PINIT) p1 dh rho).load_vec = 0) :
    p1 = ratio * (nf.PAMB + nf.PINIT) + rho * 9.81 * dh / 100000 :=
  compressor_ratio br dl (nf.PAMB + nf.PINIT) p1 dh rho ratio hL hLC hm (by rw [hPL, compressor_lift_generated]) hres

/-- an active flow controller's branch row is the identity on its mass flow: `dF/dp = dF/dp' = 0`, `dF/dm = 1`,
    residual 0 — exactly the hypothesis of `flow_identity_invariant` -/
theorem flow_control_rows_generated (br : BranchRow ℝ) (act : ℝ) (h : act ≠ 0) :
    flowControlAfterHydraulic br act = ⟨0, 0, 1, 0⟩ := by
  simp only [flowControlAfterHydraulic]
  kunfold
  simp [h]

/-- an inactive flow controller leaves the row of the generic branch equation untouched -/
theorem flow_control_inactive_generated (br : BranchRow ℝ) :
    flowControlAfterHydraulic br 0 = ⟨br.JAC_DERIV_DP, br.JAC_DERIV_DP1, br.JAC_DERIV_DM, br.LOAD_VEC_BRANCHES⟩ := by
  simp only [flowControlAfterHydraulic]
  kunfold

/-- an active pressure controller's own branch equation is blanked (its row carries the partner-node identity
    instead, `pc_pressure_invariant`); an inactive one keeps the generic row -/
theorem press_control_rows_generated (br : BranchRow ℝ) :
    (br.BRANCH_TYPE = 1 → pressControlAfterHydraulic br = ⟨0, 0, 0⟩) ∧
    (br.BRANCH_TYPE ≠ 1 → pressControlAfterHydraulic br = ⟨br.JAC_DERIV_DP, br.JAC_DERIV_DP1, br.JAC_DERIV_DM⟩) := by
  constructor <;> intro h <;> simp only [pressControlAfterHydraulic] <;> kunfold <;> simp [h]

/-- a heat consumer's hydraulic row prescribes its mass flow (every mode but heat-and-return-temperature): identity row -/
theorem heat_consumer_rows_generated (br : BranchRow ℝ) (nf nt : NodeRow ℝ) (mode cp : ℝ) (h : mode ≠ 5) :
    let r := hcAfterHydraulic br nf nt mode cp
    r.JAC_DERIV_DP = 0 ∧ r.JAC_DERIV_DP1 = 0 ∧ r.JAC_DERIV_DM = 1 ∧ r.LOAD_VEC_BRANCHES = 0 ∧ r.MDOTINIT = br.MDOTINIT := by
  simp only [hcAfterHydraulic]
  kunfold
  simp [h]

end PPV.Props.C03
