/-
  C12 — pipeflow is a pure, repeatable function of the network description.

  (1) `no_stale_read`: along the statically extracted access sequence of `pipeflow(net, …)` (regenerated
      from the current source on every run, calls inlined, branches scoped) every read or in-place update
      of an internal net key is preceded — on every path — by a (re)binding of that key in the same call;
      only the user-owned `user_pf_options` may be read first.
  (2) `purity`: for any sequence of steps with that no-stale-read shape, the final values of all available
      keys do not depend on the initial values of the internal keys.
  Mutation of user tables and bit-repeatability are runtime facts and are covered by the history search.
-/
import PPV.Model.RW
import Mathlib.Tactic.Cases
import Mathlib.Tactic.SplitIfs

namespace PPV.Props.C12
open PPV.Model.RW PPV.Gen.RWSets

/-- **no stale read** in `pipeflow` (decided by kernel evaluation over the generated event list) -/
theorem no_stale_read : check pipeflowEvents userKeys [] = true := by decide +kernel

variable {K V : Type} [DecidableEq K]

theorem apply_agree (s : Step K V) (hloc : s.Local) (avail : List K) (hr : ∀ k ∈ s.reads, k ∈ avail)
    (st st' : K → V) (h : ∀ k ∈ avail, st k = st' k) :
    ∀ k ∈ s.writes ++ avail, s.apply st k = s.apply st' k := by
  intro k hk
  unfold Step.apply
  by_cases hw : k ∈ s.writes
  · simp only [hw, if_true]
    exact hloc st st' (fun r hrr => h r (hr r hrr)) k hw
  · simp only [hw, if_false]
    rcases List.mem_append.1 hk with h1 | h1
    · exact absurd h1 hw
    · exact h k h1

/-- **purity.** If every step is local in its declared reads and no step reads a key that is neither a user
    input nor written earlier in the sequence, then two runs that start from states agreeing on the user
    inputs end in states agreeing on the user inputs and on everything written — whatever the internal keys
    held before (results of earlier calls, other modes, failed runs). -/
theorem purity (steps : List (Step K V)) (avail : List K) (hloc : ∀ s ∈ steps, s.Local)
    (hns : noStale steps avail) (st st' : K → V) (h : ∀ k ∈ avail, st k = st' k) :
    ∀ k ∈ avail, run steps st k = run steps st' k := by
  induction steps generalizing avail st st' with
  | nil => simpa [run] using h
  | cons s t ih =>
    obtain ⟨hr, hrest⟩ := hns
    have hs := apply_agree s (hloc s (List.mem_cons_self ..)) avail hr st st' h
    have := ih (s.writes ++ avail) (fun s' hs' => hloc s' (List.mem_cons_of_mem _ hs')) hrest
      (s.apply st) (s.apply st') hs
    intro k hk
    simp only [run, List.foldl_cons]
    exact this k (List.mem_append_right _ hk)

/-- non-vacuity: a two-step sequence (bind `1` from user key `0`, then bind `2` from `1`) has no stale read -/
example : noStale (K := Nat) (V := Nat)
    [⟨[0], [1], fun st _ => st 0 + 1⟩, ⟨[1], [2], fun st _ => st 1 * 2⟩] [0] := by
  simp [noStale]

end PPV.Props.C12
