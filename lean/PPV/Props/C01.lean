/-
  C01 — mass conservation at every supplied junction and over the whole network.

  Model: `Model/Assemble.lean` (rows / right-hand sides assembled by `build_system_matrix`, tied to the
  code by the exact dense-matrix correspondence) and the generated hydraulic kernels (`Gen/Kernels.lean`,
  regenerated from the source on every run) for what is written into the node-equation columns.

  All statements are over an arbitrary commutative ring (exact arithmetic), for every node count,
  branch count, topology (parallel branches, self loops, meshes) and node numbering.
-/
import PPV.Lemmas.Sums
import PPV.Real
import PPV.Gen.Kernels

open Finset BigOperators
namespace PPV.Props.C01
open PPV.Model.Assemble PPV.Lemmas PPV.Gen PPV.Gen.Kernels

variable {R : Type} [CommRing R] {n b : ℕ}

/-- what the hydraulic kernels put into the node-equation slots of branch `k`, given the current
    iterate `m`: derivative 1 and the flow itself (see `kernels_write_mass_coeffs`) -/
structure MassCoeffs (S : HydSys R n b) (m : Fin b → R) : Prop where
  jdmn : ∀ k, S.jdmn k = 1
  lvf : ∀ k, S.lvf k = m k
  lvt : ∀ k, S.lvt k = m k

/-- all four generated hydraulic kernels (liquid / gas, numpy / numba) write exactly those values -/
theorem kernels_write_mass_coeffs (br : BranchRow ℝ) (nf : NodeRow ℝ) (a1 a2 a3 a4 a5 a6 a7 a8 a9 a10 : ℝ) :
    ((hydIncompNp br a1 a2 a3 a4 a5).df_dm_nodes = 1 ∧ (hydIncompNp br a1 a2 a3 a4 a5).load_vec_nodes_from = br.MDOTINIT
      ∧ (hydIncompNp br a1 a2 a3 a4 a5).load_vec_nodes_to = br.MDOTINIT) ∧
    ((hydIncompNumba br a1 a2 a3 a4 a5).df_dm_nodes = 1 ∧ (hydIncompNumba br a1 a2 a3 a4 a5).load_vec_nodes_from = br.MDOTINIT
      ∧ (hydIncompNumba br a1 a2 a3 a4 a5).load_vec_nodes_to = br.MDOTINIT) ∧
    ((hydCompNp br nf a1 a2 a3 a4 a5 a6 a7 a8 a9 a10).df_dm_nodes = 1
      ∧ (hydCompNp br nf a1 a2 a3 a4 a5 a6 a7 a8 a9 a10).load_vec_nodes_from = br.MDOTINIT
      ∧ (hydCompNp br nf a1 a2 a3 a4 a5 a6 a7 a8 a9 a10).load_vec_nodes_to = br.MDOTINIT) ∧
    ((hydCompNumba br nf a1 a2 a3 a4 a5 a6 a7 a8 a9 a10).df_dm_nodes = 1
      ∧ (hydCompNumba br nf a1 a2 a3 a4 a5 a6 a7 a8 a9 a10).load_vec_nodes_from = br.MDOTINIT
      ∧ (hydCompNumba br nf a1 a2 a3 a4 a5 a6 a7 a8 a9 a10).load_vec_nodes_to = br.MDOTINIT) := by
  simp [hydIncompNp, hydIncompNumba, hydCompNp, hydCompNumba]

/-- the assembled row of a non-slack node is the nodal mass balance of the correction -/
theorem hyd_node_row (S : HydSys R n b) (m : Fin b → R) (h : MassCoeffs S m) (x : HydVec R n b) (i : Fin n)
    (hi : S.isSlack i = false) :
    S.nodeRow i x = netIn S.fn S.tn x.m i ∧ S.nodeRhs i = netIn S.fn S.tn m i - S.load i := by
  unfold HydSys.nodeRow HydSys.nodeRhs HydSys.sumFrom HydSys.sumTo netIn
  simp only [hi, sumFin_eq_sum, h.jdmn, h.lvf, h.lvt, Bool.false_eq_true, if_false]
  constructor
  · have e : ∀ k, (if S.fn k = i then -(1:R) * x.m k else 0) = -(if S.fn k = i then x.m k else 0) := by
      intro k; split_ifs <;> ring
    simp only [e, one_mul, Finset.sum_neg_distrib]; ring
  · ring

/-- **C01, nodal balance.** After a Newton step with step width `α`, the mass imbalance of every node
    that is not pressure-fixing is `(1-α)` times the imbalance before; for the full step (`α = 1`, the
    only value for which the driver accepts convergence) it is exactly zero. -/
theorem node_residual_after_step (S : HydSys R n b) (m : Fin b → R) (h : MassCoeffs S m) (x : HydVec R n b)
    (hx : S.Solves x) (α : R) (i : Fin n) (hi : S.isSlack i = false) :
    netIn S.fn S.tn (fun k => m k - α * x.m k) i - S.load i = (1 - α) * (netIn S.fn S.tn m i - S.load i) := by
  have hr := hx.1 i
  obtain ⟨h1, h2⟩ := hyd_node_row S m h x i hi
  rw [h1, h2] at hr
  rw [netIn_sub_smul, hr]; ring

theorem node_balance_full_step (S : HydSys R n b) (m : Fin b → R) (h : MassCoeffs S m) (x : HydVec R n b)
    (hx : S.Solves x) (i : Fin n) (hi : S.isSlack i = false) :
    netIn S.fn S.tn (fun k => m k - 1 * x.m k) i = S.load i := by
  have := node_residual_after_step S m h x hx 1 i hi
  simp only [sub_self, zero_mul] at this
  exact sub_eq_zero.mp this

/-- **C01, pressure-fixing nodes.** With the slack-mass derivative `-1` (what `ExtGrid` /
    `CirculationPump` write), after a full step the updated slack mass of a pressure-fixing node equals
    its net branch inflow minus its load: the external-grid result closes the balance of that node. -/
theorem slack_mass_after_step (S : HydSys R n b) (m : Fin b → R) (h : MassCoeffs S m) (x : HydVec R n b)
    (hx : S.Solves x) (i : Fin n) (hi : S.isSlack i = true) (hj : S.jmsl i = -1) :
    netIn S.fn S.tn (fun k => m k - 1 * x.m k) i - S.load i = S.msl i - x.s i := by
  have hr := hx.2.2 i hi
  unfold HydSys.slackRow HydSys.slackRhs HydSys.sumFrom HydSys.sumTo at hr
  simp only [sumFin_eq_sum, h.jdmn, h.lvf, h.lvt, hj] at hr
  have e : ∀ k, (if S.fn k = i then -(1:R) * x.m k else 0) = -(if S.fn k = i then x.m k else 0) := by
    intro k; split_ifs <;> ring
  simp only [e, one_mul, Finset.sum_neg_distrib] at hr
  rw [netIn_sub_smul]; unfold netIn
  linear_combination (-1 : R) * hr

/-- **C01, global balance.** If every non-slack node balances its load and every slack node's slack
    mass closes its balance, total slack mass (= minus total feed-in) plus total load is zero:
    feed-in = consumption − injection, for any topology. -/
theorem feed_in_eq_consumption (fn tn : Fin b → Fin n) (isSlack : Fin n → Bool) (m : Fin b → R)
    (load msl : Fin n → R)
    (hL : ∀ i, isSlack i = false → netIn fn tn m i = load i)
    (hS : ∀ i, isSlack i = true → netIn fn tn m i - load i = msl i) :
    (∑ i, if isSlack i then msl i else 0) + ∑ i, load i = 0 := by
  have hg := global_balance fn tn m
  have : ∀ i, netIn fn tn m i = load i + (if isSlack i then msl i else 0) := by
    intro i
    cases hi : isSlack i
    · simp [hL i hi]
    · have := hS i hi; simp; linear_combination this
  simp only [this, Finset.sum_add_distrib] at hg
  linear_combination hg

/-- **C01, pipe sections.** An internal node (one entering section `k₁`, one leaving section `k₂`, no
    load) in balance forces equal flow in both sections; hence all sections of a pipe carry the same
    flow and `mdot_from = -mdot_to`. -/
theorem sections_equal_flow (fn tn : Fin b → Fin n) (m : Fin b → R) (i : Fin n) (k₁ k₂ : Fin b)
    (hin : ∀ k, tn k = i ↔ k = k₁) (hout : ∀ k, fn k = i ↔ k = k₂) (hbal : netIn fn tn m i = 0) :
    m k₁ = m k₂ := by
  unfold netIn at hbal
  have e1 : (∑ k, if tn k = i then m k else 0) = m k₁ := by
    simp only [hin]; simp
  have e2 : (∑ k, if fn k = i then m k else 0) = m k₂ := by
    simp only [hout]; simp
  rw [e1, e2] at hbal
  exact sub_eq_zero.mp hbal

/-! Non-vacuity: a concrete two-node, one-branch system (slack node 0 feeding node 1 with load 3) meets
    the hypotheses, and its Newton correction from the zero state is solved by `x.m = -3`. -/
def exS : HydSys ℚ 2 1 :=
  { fn := fun _ => 0, tn := fun _ => 1, isSlack := fun i => i == 0, isPcNode := fun _ => false,
    isPcBranch := fun _ => false, jdm := fun _ => -2, jdp := fun _ => 1, jdp1 := fun _ => -1, jdmn := fun _ => 1,
    lvb := fun _ => 0, lvf := fun _ => 0, lvt := fun _ => 0, load := fun i => if i == 1 then 3 else 0,
    msl := fun _ => 0, jmsl := fun _ => -1 }
def exX : HydVec ℚ 2 1 := { p := fun i => if i == 1 then 6 else 0, m := fun _ => -3, s := fun _ => 3 }

example : MassCoeffs exS (fun _ => 0) := ⟨fun _ => rfl, fun _ => rfl, fun _ => rfl⟩
example : exS.Solves exX := by
  refine ⟨?_, ?_, ?_⟩
  · intro i; fin_cases i <;> simp [exS, exX, HydSys.nodeRow, HydSys.nodeRhs, HydSys.sumFrom, HydSys.sumTo, sumFin, List.finRange]
  · intro k; fin_cases k; simp [exS, exX, HydSys.branchRow, HydSys.branchRhs, HydSys.pcPartner, HydSys.pcBranches, List.finRange]; norm_num
  · intro i hi; fin_cases i <;> simp_all [exS, exX, HydSys.slackRow, HydSys.slackRhs, HydSys.sumFrom, HydSys.sumTo, sumFin, List.finRange]

end PPV.Props.C01
