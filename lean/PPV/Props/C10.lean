/-
  C10 — temperatures obey the pipe cooling law, energy-conserving mixing and fixed feeds.

  Models: the thermal kernels generated from the current source (`Gen/Kernels.lean`), the thermal
  assembly of `Model/Assemble.lean` (exact correspondence with `build_system_matrix(heat_mode=True)`),
  and a short graph-level specification of a steady thermal state for the maximum principle.
-/
import PPV.Lemmas.Sums
import PPV.Lemmas.KTac
import PPV.Gen.Kernels
import Mathlib.Algebra.Order.BigOperators.Group.Finset
import Mathlib.Algebra.Order.BigOperators.Ring.Finset
import Mathlib.Order.Filter.Extr
import Mathlib.Logic.Relation
import Mathlib.Tactic.Positivity

open Finset BigOperators
namespace PPV.Props.C10
open PPV.Model.Assemble PPV.Lemmas PPV PPV.Gen PPV.Gen.Kernels

/-- **cooling law.** For a branch that carries flow the generated residual vanishes exactly when the outlet
    temperature is `T_ext + (T_in − T_ext)·exp(−U·π·d_o·l/(c_p·|ṁ|)) + ΔT_lift − Q_ext/(c_p·|ṁ|)`. -/
theorem cooling_law (br : BranchRow ℝ) (tin tout tnt cpn cpb amb : ℝ)
    (hflow : ¬ (|br.MDOTINIT - 0| ≤ 1e-10 + 1e-10 * |(0:ℝ)|)) :
    (thermalBranchNp br tin tout tnt cpn cpb amb).fb = 0 ↔
      tout = br.TEXT + (tin - br.TEXT) * Real.exp (-(br.ALPHA * Real.pi * br.DO) * br.LENGTH / (cpb * |br.MDOTINIT|))
              + br.TL - br.QEXT / (cpb * |br.MDOTINIT|) := by
  have hf : (1e-10 : ℝ) < |br.MDOTINIT| := by
    rw [not_le] at hflow; norm_num at hflow ⊢; linarith
  have hnle : ¬ |br.MDOTINIT| ≤ (1e-10 : ℝ) := not_le.2 hf
  simp only [thermalBranchNp]
  kunfold
  simp [hf, hnle]
  constructor <;> intro h <;> linarith

/-- a branch without flow relaxes to the ambient option temperature -/
theorem no_flow_branch (br : BranchRow ℝ) (tin tout tnt cpn cpb amb : ℝ)
    (h0 : |br.MDOTINIT - 0| ≤ 1e-10 + 1e-10 * |(0:ℝ)|) :
    (thermalBranchNp br tin tout tnt cpn cpb amb).fb = 0 ↔ tout = amb := by
  have hle : |br.MDOTINIT| ≤ (1e-10 : ℝ) := by norm_num at h0 ⊢; linarith
  simp only [thermalBranchNp]
  kunfold
  simp [hle]
  constructor <;> intro h <;> linarith

/-- what the kernel writes into the node-equation slots of a flowing branch: weight `w = c̄_p·|ṁ|`,
    residual `w·(T_out − T_node)`, derivatives `∓w` -/
theorem mixing_coefficients (br : BranchRow ℝ) (tin tout tnt cpn cpb amb : ℝ)
    (hflow : ¬ (|br.MDOTINIT - 0| ≤ 1e-10 + 1e-10 * |(0:ℝ)|)) :
    let r := thermalBranchNp br tin tout tnt cpn cpb amb
    r.fnt = cpn * |br.MDOTINIT| * (tout - tnt) ∧ r.dfnt_dt = -(cpn * |br.MDOTINIT|) ∧ r.dfnt_dtout = cpn * |br.MDOTINIT| := by
  have hf : (1e-10 : ℝ) < |br.MDOTINIT| := by
    rw [not_le] at hflow; norm_num at hflow ⊢; linarith
  have hnle : ¬ |br.MDOTINIT| ≤ (1e-10 : ℝ) := not_le.2 hf
  simp only [thermalBranchNp]
  kunfold
  simp [hf, hnle]

variable {R : Type} [CommRing R] {n b : ℕ}

/-- coefficients of the thermal node equations as the kernels write them for weights `w` and current
    iterate `(T, T_out)` -/
structure MixCoeffs (S : HeatSys R n b) (w : Fin b → R) (T : Fin n → R) (tout : Fin b → R) : Prop where
  jdtn : ∀ k, S.jdtn k = -(w k)
  jdtoutn : ∀ k, S.jdtoutn k = w k
  lvtt : ∀ k, S.lvtt k = w k * (tout k - T (S.tn k))
  jdtnn : ∀ i, S.jdtnn i = 0
  loadT : ∀ i, S.loadT i = 0

/-- **energy-conserving mixing.** After a full Newton step of the assembled thermal system, every node
    that is not a feed-in node satisfies `Σ_{streams entering i} w_b·(T_out,b − T_i) = 0`, i.e. its temperature
    is the `w`-weighted mean of the outlet temperatures of the entering streams — any number of entering
    streams, any topology (loops, parallel branches). -/
theorem thermal_node_row_after_step (S : HeatSys R n b) (w : Fin b → R) (T : Fin n → R) (tout : Fin b → R)
    (h : MixCoeffs S w T tout) (x : HeatVec R n b) (hx : S.Solves x) (i : Fin n) (hi : S.infeed i = false)
    (hp : S.slackPartner i = none) :
    ∑ k, (if S.tn k = i then w k * ((tout k - x.tout k) - (T i - x.t i)) else 0) = 0 := by
  have hr := hx.1 i
  simp only [HeatSys.nodeRow, HeatSys.nodeRhs, hi, hp, HeatSys.sumTo, sumFin_eq_sum, h.jdtn, h.jdtoutn, h.lvtt,
    h.jdtnn, h.loadT, Bool.false_eq_true, if_false, zero_mul, add_zero, neg_zero, zero_add] at hr
  have e : ∀ k, (if S.tn k = i then w k * ((tout k - x.tout k) - (T i - x.t i)) else 0)
      = (if S.tn k = i then w k * (tout k - T (S.tn k)) else 0)
        - ((if S.tn k = i then -(w k) * x.t i else 0) + (if S.tn k = i then w k * x.tout k else 0)) := by
    intro k; split_ifs with hk
    · rw [hk]; ring
    · ring
  simp only [e, Finset.sum_sub_distrib, Finset.sum_add_distrib]
  rw [← hr]; ring

/-- **fixed feeds.** When the feed-in nodes are exactly the temperature-fixing nodes (the code pairs the k-th
    of one list with the k-th of the other), the row of a feed-in node is the identity with zero right-hand
    side: its temperature is never corrected, so the imposed feed temperature is the reported one. -/
theorem infeed_rows_fix_T (S : HeatSys R n b) (x : HeatVec R n b) (hx : S.Solves x) (i : Fin n)
    (hi : S.infeed i = true) (hp : S.slackPartner i = some i) : x.t i = 0 := by
  have hr := hx.1 i
  simpa [HeatSys.nodeRow, HeatSys.nodeRhs, hi, hp] using hr

/-- the pairing is the identity when both lists coincide -/
theorem slackPartner_self (S : HeatSys R n b) (heq : S.infeedNodes = S.tSlackNodes) (i : Fin n) (hi : S.infeed i = true) :
    S.slackPartner i = some i := by
  unfold HeatSys.slackPartner
  have hmem : i ∈ S.infeedNodes := List.mem_filter.2 ⟨List.mem_finRange i, hi⟩
  obtain ⟨idx, hidx, hget⟩ := List.getElem_of_mem hmem
  have hnd : S.infeedNodes.Nodup := (List.nodup_finRange n).filter _
  have : S.infeedNodes.idxOf? i = some idx := by
    rw [List.idxOf?_eq_some_iff]
    refine ⟨hidx, by simpa using hget, ?_⟩
    intro m hm heq'
    have : S.infeedNodes[m]'(by omega) = S.infeedNodes[idx] := by simpa [hget] using heq'
    have := (List.Nodup.getElem_inj_iff hnd).1 this
    omega
  rw [this, ← heq]
  simp [hidx, hget]

/-! ### maximum principle on the flow-oriented graph -/

/-- a steady thermal state (branches oriented with the flow): outlet temperature is a convex combination of
    inlet and ambient temperature (`e = exp(−…) ∈ [0,1]`, no heat sources), feed-in nodes carry their feed
    temperature, other nodes the weighted mean of what enters, and every node is fed from a feed-in node -/
structure Therm (fn tn : Fin b → Fin n) (w e amb : Fin b → ℝ) (infeed : Fin n → Prop)
    (feed : Fin n → ℝ) (T : Fin n → ℝ) (tout : Fin b → ℝ) : Prop where
  wpos : ∀ k, 0 < w k
  e01 : ∀ k, 0 ≤ e k ∧ e k ≤ 1
  branch : ∀ k, tout k = e k * T (fn k) + (1 - e k) * amb k
  fixed : ∀ i, infeed i → T i = feed i
  mix : ∀ i, ¬ infeed i → ∑ k, (if tn k = i then w k * (tout k - T i) else 0) = 0
  fed : ∀ i, ∃ s, infeed s ∧ Relation.ReflTransGen (fun u v => ∃ k, fn k = u ∧ tn k = v) s i

/-- **upper bound**: no temperature exceeds the warmest of feed and ambient temperatures -/
theorem max_principle_upper (fn tn : Fin b → Fin n) (w e amb : Fin b → ℝ) (infeed : Fin n → Prop)
    (feed T : Fin n → ℝ) (tout : Fin b → ℝ) (h : Therm fn tn w e amb infeed feed T tout)
    (M : ℝ) (hfeed : ∀ i, infeed i → feed i ≤ M) (hamb : ∀ k, amb k ≤ M) : ∀ i, T i ≤ M := by
  classical
  by_contra hcon
  push Not at hcon
  obtain ⟨i0, hi0⟩ := hcon
  obtain ⟨im, -, hmax⟩ := Finset.exists_max_image (univ : Finset (Fin n)) T ⟨i0, mem_univ _⟩
  have hTm : M < T im := lt_of_lt_of_le hi0 (hmax i0 (mem_univ _))
  have up : ∀ v, T v = T im → ∀ k, tn k = v → T (fn k) = T im := by
    intro v hv k hk
    have hnin : ¬ infeed v := by
      intro hin; have := hfeed v hin; rw [← h.fixed v hin, hv] at this; linarith
    have hmix := h.mix v hnin
    have hle : ∀ k' ∈ (univ : Finset (Fin b)), (if tn k' = v then w k' * (tout k' - T v) else 0) ≤ 0 := by
      intro k' _
      split_ifs with hk'
      · have he := h.e01 k'
        have hb := h.branch k'
        have h1 : T (fn k') ≤ T im := hmax _ (mem_univ _)
        have h2 : amb k' ≤ T im := le_trans (hamb k') (le_of_lt hTm)
        have : tout k' ≤ T v := by
          rw [hb, hv]
          nlinarith [he.1, he.2, mul_le_mul_of_nonneg_left h1 he.1, mul_le_mul_of_nonneg_left h2 (sub_nonneg.2 he.2)]
        have hw := h.wpos k'
        nlinarith
      · exact le_refl 0
    have hz := (Finset.sum_eq_zero_iff_of_nonpos hle).1 hmix k (mem_univ _)
    rw [if_pos hk] at hz
    have hw := h.wpos k
    have htk : tout k = T v := by
      have : tout k - T v = 0 := by
        rcases mul_eq_zero.1 hz with h0 | h0
        · linarith
        · exact h0
      linarith
    have he := h.e01 k
    have hb := h.branch k
    have h1 : T (fn k) ≤ T im := hmax _ (mem_univ _)
    have h2 : amb k < T im := lt_of_le_of_lt (hamb k) hTm
    rw [hv] at htk
    by_contra hne
    have hlt : T (fn k) < T im := lt_of_le_of_ne h1 hne
    have : tout k < T im := by
      rw [hb]
      rcases eq_or_lt_of_le he.1 with h0 | hpos
      · rw [← h0]; simp; linarith
      · nlinarith [mul_lt_mul_of_pos_left hlt hpos, mul_le_mul_of_nonneg_left (le_of_lt h2) (sub_nonneg.2 he.2)]
    linarith
  obtain ⟨s, hs, hpath⟩ := h.fed im
  have hback : T s = T im := by
    refine Relation.ReflTransGen.head_induction_on hpath rfl ?_
    intro a c hac _ hc
    obtain ⟨k, hk1, hk2⟩ := hac
    have := up c hc k hk2
    rw [hk1] at this; exact this
  have := hfeed s hs
  rw [← h.fixed s hs, hback] at this
  linarith

/-- **lower bound** (the same statement for the negated temperatures) -/
theorem max_principle_lower (fn tn : Fin b → Fin n) (w e amb : Fin b → ℝ) (infeed : Fin n → Prop)
    (feed T : Fin n → ℝ) (tout : Fin b → ℝ) (h : Therm fn tn w e amb infeed feed T tout)
    (m : ℝ) (hfeed : ∀ i, infeed i → m ≤ feed i) (hamb : ∀ k, m ≤ amb k) : ∀ i, m ≤ T i := by
  have hneg : Therm fn tn w e (fun k => -amb k) infeed (fun i => -feed i) (fun i => -T i) (fun k => -tout k) :=
    { wpos := h.wpos, e01 := h.e01,
      branch := fun k => by rw [h.branch k]; ring,
      fixed := fun i hi => by rw [h.fixed i hi],
      mix := fun i hi => by
        have := h.mix i hi
        have e : ∀ k, (if tn k = i then w k * (-tout k - -T i) else 0) = -(if tn k = i then w k * (tout k - T i) else 0) := by
          intro k; split_ifs <;> ring
        simp only [e, Finset.sum_neg_distrib, this, neg_zero],
      fed := h.fed }
  intro i
  have := max_principle_upper fn tn w e (fun k => -amb k) infeed (fun i => -feed i) (fun i => -T i) (fun k => -tout k)
    hneg (-m) (fun i hi => by have := hfeed i hi; linarith) (fun k => by have := hamb k; linarith) i
  linarith

/-- non-vacuity: feed node 0 at 350 K, one pipe to node 1 with `e = 1/2` and ambient 280 K gives 315 K -/
example : Therm (fun _ : Fin 1 => (0 : Fin 2)) (fun _ => 1) (fun _ => 1) (fun _ => 1/2) (fun _ => 280)
    (fun i => i = 0) (fun _ => 350) (fun i => if i = 0 then 350 else 315) (fun _ => 315) := by
  refine ⟨fun _ => by norm_num, fun _ => by norm_num, fun _ => by norm_num, fun i hi => by simp [hi], ?_, ?_⟩
  · intro i hi
    have : i = 1 := by fin_cases i <;> simp_all
    subst this; simp
  · intro i
    refine ⟨0, rfl, ?_⟩
    fin_cases i
    · exact Relation.ReflTransGen.refl
    · exact Relation.ReflTransGen.single ⟨0, rfl, rfl⟩

end PPV.Props.C10
