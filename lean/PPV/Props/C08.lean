/-
  C08 — the converged solution is independent of start values and of the damping strategy.

  Start values and damping only select *which* sequence of iterates is produced; what is accepted is
  (C05) an approximate solution of the same nonlinear system.  The theorems below show that this system
  has at most one solution: flows on any meshed topology are unique for strictly monotone branch laws,
  pressures follow along paths from a pressure-fixing node, and the liquid friction law generated from
  the current kernels has the strictly monotone form `a·ṁ + b·ṁ|ṁ|`.
-/
import PPV.Lemmas.Sums
import PPV.Lemmas.KTac
import PPV.Gen.Kernels
import Mathlib.Algebra.Order.BigOperators.Group.Finset
import Mathlib.Algebra.Order.Field.Basic
import Mathlib.Logic.Relation
import Mathlib.Tactic.Positivity

open Finset BigOperators
namespace PPV.Props.C08
open PPV.Lemmas PPV PPV.Gen PPV.Gen.Kernels

variable {n b : ℕ}

/-- hydraulic steady state: slack nodes have their prescribed pressure, every other node balances its
    load, every branch obeys `p_from − p_to = f_k(ṁ_k)` -/
structure Sol (fn tn : Fin b → Fin n) (slack : Fin n → Prop) (pset load : Fin n → ℝ)
    (f : Fin b → ℝ → ℝ) (p : Fin n → ℝ) (m : Fin b → ℝ) : Prop where
  fixed : ∀ i, slack i → p i = pset i
  bal : ∀ i, ¬ slack i → netIn fn tn m i = load i
  mom : ∀ k, p (fn k) - p (tn k) = f k (m k)

/-- **uniqueness of the flows** on an arbitrary (meshed, parallel-branch) topology: two steady states of
    the same network with strictly monotone branch laws carry identical flows -/
theorem flows_unique (fn tn : Fin b → Fin n) (slack : Fin n → Prop) (pset load : Fin n → ℝ)
    (f : Fin b → ℝ → ℝ) (hf : ∀ k, StrictMono (f k)) (p p' : Fin n → ℝ) (m m' : Fin b → ℝ)
    (h : Sol fn tn slack pset load f p m) (h' : Sol fn tn slack pset load f p' m') : m = m' := by
  classical
  have hlin : ∀ i, netIn fn tn (fun k => m k - m' k) i = netIn fn tn m i - netIn fn tn m' i := by
    intro i
    have := netIn_sub_smul fn tn m m' 1 i
    simpa using this
  have h0 : ∑ i, (p i - p' i) * netIn fn tn (fun k => m k - m' k) i = 0 := by
    apply Finset.sum_eq_zero; intro i _
    by_cases hs : slack i
    · rw [h.fixed i hs, h'.fixed i hs]; ring
    · rw [hlin, h.bal i hs, h'.bal i hs]; ring
  rw [incidence_swap] at h0
  have hterm : ∀ k, 0 ≤ (m k - m' k) * (f k (m k) - f k (m' k)) := by
    intro k
    rcases lt_trichotomy (m k) (m' k) with hlt | heq | hgt
    · have := hf k hlt; nlinarith
    · rw [heq]; simp
    · have := hf k hgt; nlinarith
  have hsum : ∑ k, (m k - m' k) * (f k (m k) - f k (m' k)) = 0 := by
    have e : ∀ k, (m k - m' k) * (f k (m k) - f k (m' k))
        = - ((m k - m' k) * ((p (tn k) - p' (tn k)) - (p (fn k) - p' (fn k)))) := by
      intro k; rw [← h.mom k, ← h'.mom k]; ring
    simp only [e, Finset.sum_neg_distrib, h0, neg_zero]
  have hz := (Finset.sum_eq_zero_iff_of_nonneg (fun k _ => hterm k)).1 hsum
  funext k
  have hk := hz k (Finset.mem_univ k)
  by_contra hne
  rcases lt_or_gt_of_ne hne with hlt | hgt
  · have := hf k hlt; nlinarith
  · have := hf k hgt; nlinarith

/-- **uniqueness of the pressures** at every node connected to a pressure-fixing node by branches
    (in either direction): with equal flows the pressure differences agree along any path -/
theorem pressures_unique_on_supplied (fn tn : Fin b → Fin n) (slack : Fin n → Prop) (pset load : Fin n → ℝ)
    (f : Fin b → ℝ → ℝ) (hf : ∀ k, StrictMono (f k)) (p p' : Fin n → ℝ) (m m' : Fin b → ℝ)
    (h : Sol fn tn slack pset load f p m) (h' : Sol fn tn slack pset load f p' m')
    (s v : Fin n) (hs : slack s)
    (hpath : Relation.ReflTransGen (fun u w => ∃ k, (fn k = u ∧ tn k = w) ∨ (tn k = u ∧ fn k = w)) s v) :
    p v = p' v := by
  have hm := flows_unique fn tn slack pset load f hf p p' m m' h h'
  induction hpath with
  | refl => rw [h.fixed s hs, h'.fixed s hs]
  | tail _ hstep ih =>
    obtain ⟨k, hk | hk⟩ := hstep
    · have e1 := h.mom k; have e2 := h'.mom k
      rw [hk.1, hk.2] at e1 e2; rw [hm] at e1; linarith
    · have e1 := h.mom k; have e2 := h'.mom k
      rw [hk.1, hk.2] at e1 e2; rw [hm] at e1; linarith

/-- `ṁ ↦ a·ṁ + b·ṁ|ṁ|` is strictly monotone for `a > 0`, `b ≥ 0` -/
theorem affine_quadratic_strictMono (a c : ℝ) (ha : 0 < a) (hc : 0 ≤ c) :
    StrictMono (fun m : ℝ => a * m + c * (m * |m|)) := by
  have hq : ∀ x y : ℝ, x < y → x * |x| ≤ y * |y| := by
    intro x y hxy
    rcases le_or_gt 0 x with hx | hx
    · have hy : 0 ≤ y := le_trans hx (le_of_lt hxy)
      rw [abs_of_nonneg hx, abs_of_nonneg hy]; nlinarith
    · rcases le_or_gt 0 y with hy | hy
      · rw [abs_of_neg hx, abs_of_nonneg hy]; nlinarith
      · rw [abs_of_neg hx, abs_of_neg hy]; nlinarith
  intro x y hxy
  have := hq x y hxy
  simp only
  nlinarith [mul_le_mul_of_nonneg_left this hc]

/-- **the generated liquid friction law has that form.** With the Nikuradse model of the current source
    (`λ = 64/Re + λ_rough`, `Re = |ṁ| d/(η A)`), for a flowing branch the friction loss computed by the
    generated kernel is `a·ṁ + b·ṁ|ṁ|` with `a = 32 η l /(ρ A d² · 1e5)` and
    `b = (λ_rough l/d + ζ)/(2 ρ A² · 1e5)`. -/
theorem nikuradse_loss_form (br : BranchRow ℝ) (dl p p1 dh rho eta lamRough : ℝ)
    (hrho : 0 < rho) (hA : 0 < br.AREA) (hD : 0 < br.D) (heta : 0 < eta) (hm : br.MDOTINIT ≠ 0)
    (hlam : br.LAMBDA = 64 / (|br.MDOTINIT| * br.D / (eta * br.AREA)) + lamRough) :
    (hydIncompNp br dl p p1 dh rho).dp_frict_loss
      = (32 * eta * br.LENGTH / (rho * br.AREA * br.D ^ 2 * 100000)) * br.MDOTINIT
        + ((lamRough * br.LENGTH / br.D + br.LOSS_COEFFICIENT) / (2 * rho * br.AREA ^ 2 * 100000))
            * (br.MDOTINIT * |br.MDOTINIT|) := by
  simp only [hydIncompNp, Constants.P_CONVERSION, hlam]
  kunfold
  have h1 : rho ≠ 0 := ne_of_gt hrho
  have h2 : br.AREA ≠ 0 := ne_of_gt hA
  have h3 : br.D ≠ 0 := ne_of_gt hD
  have h4 : eta ≠ 0 := ne_of_gt heta
  have h5 : |br.MDOTINIT| ≠ 0 := abs_ne_zero.2 hm
  field_simp
  ring

/-- the coefficients of that form are admissible (`a > 0`, `b ≥ 0`) for physical parameters, so the branch
    law of a pipe with positive length is strictly monotone and `flows_unique` applies -/
theorem nikuradse_coefficients_admissible (rho A D eta l lamRough zeta : ℝ)
    (hrho : 0 < rho) (hA : 0 < A) (hD : 0 < D) (heta : 0 < eta) (hl : 0 < l) (hlam : 0 ≤ lamRough) (hz : 0 ≤ zeta) :
    0 < 32 * eta * l / (rho * A * D ^ 2 * 100000) ∧ 0 ≤ (lamRough * l / D + zeta) / (2 * rho * A ^ 2 * 100000) := by
  constructor <;> positivity

/-- non-vacuity: the two-node network with one branch `f(ṁ) = ṁ + ṁ|ṁ|` has the solution `ṁ = 1`, `p = (2, 0)` -/
example : Sol (fun _ : Fin 1 => (0 : Fin 2)) (fun _ => 1) (fun i => i = 0) (fun _ => 2) (fun _ => 1)
    (fun _ m => 1 * m + 1 * (m * |m|)) (fun i => if i = 0 then 2 else 0) (fun _ => 1) := by
  refine ⟨?_, ?_, ?_⟩
  · intro i hi; simp [hi]
  · intro i hi
    have : i = 1 := by fin_cases i <;> simp_all
    subst this; simp [netIn]
  · intro k; norm_num

end PPV.Props.C08
