/-
  The numpy variant of the grouped sum (`_sum_by_group_np`: stable sort by label, running sum, keep the
  entry at the end of each run of equal labels, difference of neighbours) equals the specification
  "ascending distinct labels, each with the sum of the values carrying it" — for every input list.
-/
import PPV.Model.GroupSum
import Mathlib.Data.List.Sort
import Mathlib.Algebra.BigOperators.Group.List.Basic
import Mathlib.Algebra.Group.Basic
import Mathlib.Tactic.Abel
import Mathlib.Order.Basic
import Mathlib.Data.Nat.Basic

namespace PPV.Lemmas.GroupNp
open PPV.Model.GroupSum

set_option linter.unusedSectionVars false
set_option linter.unusedSimpArgs false
variable {R : Type} [AddCommGroup R]

/-! ### insertion sort: permutation, sortedness -/

theorem insertBy_perm {β : Type} (key : β → Nat) (x : β) (l : List β) : (insertBy key x l).Perm (x :: l) := by
  induction l with
  | nil => simp [insertBy]
  | cons y t ih =>
    unfold insertBy
    split
    · exact List.Perm.refl _
    · exact ((List.Perm.cons y ih).trans (List.Perm.swap x y t))

theorem isortBy_perm {β : Type} (key : β → Nat) (l : List β) : (isortBy key l).Perm l := by
  induction l with
  | nil => simp [isortBy]
  | cons x t ih => exact (insertBy_perm key x _).trans (List.Perm.cons x ih)

theorem insertBy_sorted {β : Type} (key : β → Nat) (x : β) (l : List β)
    (h : l.Pairwise (fun a b => key a ≤ key b)) : (insertBy key x l).Pairwise (fun a b => key a ≤ key b) := by
  induction l with
  | nil => simp [insertBy]
  | cons y t ih =>
    unfold insertBy
    rw [List.pairwise_cons] at h
    split
    · rename_i hlt
      refine List.pairwise_cons.2 ⟨?_, List.pairwise_cons.2 h⟩
      intro z hz
      rcases List.mem_cons.1 hz with rfl | hz
      · exact Nat.le_of_lt hlt
      · exact Nat.le_trans (Nat.le_of_lt hlt) (h.1 z hz)
    · rename_i hnlt
      refine List.pairwise_cons.2 ⟨?_, ih h.2⟩
      intro z hz
      rcases List.mem_cons.1 ((insertBy_perm key x t).mem_iff.1 hz) with rfl | hz
      · exact Nat.le_of_not_lt hnlt
      · exact h.1 z hz

theorem isortBy_sorted {β : Type} (key : β → Nat) (l : List β) :
    (isortBy key l).Pairwise (fun a b => key a ≤ key b) := by
  induction l with
  | nil => simp [isortBy]
  | cons x t ih => exact insertBy_sorted key x _ ih

/-! ### the duplicate-free key list -/

theorem mem_dedup (y : Nat) (l : List Nat) : y ∈ dedup l ↔ y ∈ l := by
  induction l with
  | nil => simp [dedup]
  | cons x t ih =>
    by_cases h : y = x
    · simp [dedup, h]
    · simp [dedup, ih, h]

theorem dedup_nodup (l : List Nat) : (dedup l).Nodup := by
  induction l with
  | nil => simp [dedup]
  | cons x t ih =>
    simp only [dedup, List.nodup_cons]
    refine ⟨by simp, ih.filter _⟩

theorem keysOf_strict (l : List Nat) : (keysOf l).Pairwise (· < ·) := by
  have hs := isortBy_sorted id (dedup l)
  have hn : (isortBy id (dedup l)).Nodup := (isortBy_perm id (dedup l)).nodup_iff.2 (dedup_nodup l)
  unfold keysOf
  have := hs.and hn
  refine this.imp ?_
  intro a b hab
  exact Nat.lt_of_le_of_ne hab.1 hab.2

theorem mem_keysOf (k : Nat) (l : List Nat) : k ∈ keysOf l ↔ k ∈ l := by
  unfold keysOf
  rw [(isortBy_perm id (dedup l)).mem_iff, mem_dedup]

/-! ### keys at run ends of a sorted list -/

/-- the labels that survive `runEnds` -/
def keysAdj : List (Nat × R) → List Nat
  | [] => []
  | [p] => [p.1]
  | p :: q :: t => if p.1 == q.1 then keysAdj (q :: t) else p.1 :: keysAdj (q :: t)

theorem mem_keysAdj (s : List (Nat × R)) (k : Nat) : k ∈ keysAdj s ↔ k ∈ s.map Prod.fst := by
  induction s with
  | nil => simp [keysAdj]
  | cons p t ih =>
    cases t with
    | nil => simp [keysAdj]
    | cons q t =>
      unfold keysAdj
      by_cases h : p.1 = q.1
      · simp only [h, beq_self_eq_true, if_true, ih]
        simp [h]
      · simp only [beq_iff_eq, h, if_false, List.mem_cons, ih]
        simp

theorem keysAdj_strict (s : List (Nat × R)) (h : s.Pairwise (fun a b => a.1 ≤ b.1)) :
    (keysAdj s).Pairwise (· < ·) := by
  induction s with
  | nil => simp [keysAdj]
  | cons p t ih =>
    cases t with
    | nil => simp [keysAdj]
    | cons q t =>
      rw [List.pairwise_cons] at h
      unfold keysAdj
      by_cases hpq : p.1 = q.1
      · simp only [hpq, beq_self_eq_true, if_true]
        exact ih h.2
      · simp only [beq_iff_eq, hpq, if_false]
        refine List.pairwise_cons.2 ⟨?_, ih h.2⟩
        intro k hk
        rw [mem_keysAdj] at hk
        obtain ⟨x, hx, rfl⟩ := List.mem_map.1 hk
        have hq : p.1 < q.1 := Nat.lt_of_le_of_ne (h.1 q (by simp)) hpq
        rcases List.mem_cons.1 hx with rfl | hx
        · exact hq
        · exact Nat.lt_of_lt_of_le hq ((List.pairwise_cons.1 h.2).1 x hx)

/-! ### the main induction -/

theorem sumOf_cons (p : Nat × R) (t : List (Nat × R)) (k : Nat) :
    sumOf (p :: t) k = (if p.1 = k then p.2 else 0) + sumOf t k := by
  unfold sumOf
  by_cases h : p.1 = k <;> simp [List.filter_cons, h]

theorem sumOf_zero_of_lt (t : List (Nat × R)) (k : Nat) (h : ∀ x ∈ t, k < x.1) : sumOf t k = 0 := by
  unfold sumOf
  have : t.filter (fun p => p.1 == k) = [] := by
    rw [List.filter_eq_nil_iff]
    intro x hx
    have := h x hx
    simp only [beq_iff_eq]
    omega
  simp [this]

/-- sort-free core: sums over runs of a sorted list -/
def core (s : List (Nat × R)) (acc prev : R) : List (Nat × R) :=
  diffs (runEnds ((s.map Prod.fst).zip (cumsum (s.map Prod.snd) acc))) (some prev)

theorem core_eq (s : List (Nat × R)) (h : s.Pairwise (fun a b => a.1 ≤ b.1)) (acc prev : R) :
    core s acc prev = (keysAdj s).map (fun k =>
      (k, (if s.head?.map Prod.fst = some k then acc - prev else 0) + sumOf s k)) := by
  induction s generalizing acc prev with
  | nil => simp [core, keysAdj, cumsum, runEnds, diffs]
  | cons p t ih =>
    cases t with
    | nil =>
      simp only [core, keysAdj, List.map_cons, List.map_nil, cumsum, List.zip_cons_cons, List.zip_nil_right,
        runEnds, diffs, List.head?_cons, Option.map_some, if_true, sumOf_cons]
      simp only [sumOf, List.filter_nil, List.map_nil, List.sum_nil, if_true]
      congr 2
      abel
    | cons q t =>
      rw [List.pairwise_cons] at h
      have ih' := ih h.2
      have hstep : core (p :: q :: t) acc prev =
          if p.1 == q.1 then core (q :: t) (acc + p.2) prev
          else (p.1, acc + p.2 - prev) :: core (q :: t) (acc + p.2) (acc + p.2) := by
        simp only [core, List.map_cons, cumsum, List.zip_cons_cons, runEnds]
        by_cases hpq : p.1 = q.1
        · simp [hpq]
        · simp [hpq, diffs]
      rw [hstep]
      unfold keysAdj
      by_cases hpq : p.1 = q.1
      · simp only [hpq, beq_self_eq_true, if_true]
        rw [ih']
        apply List.map_congr_left
        intro k _
        simp only [List.head?_cons, Option.map_some, Option.some.injEq, Prod.mk.injEq, true_and]
        rw [sumOf_cons p (q :: t) k]
        by_cases hk : q.1 = k
        · simp only [hpq, hk, if_true]; abel
        · simp only [hpq, hk, if_false]; abel
      · have hq : p.1 < q.1 := Nat.lt_of_le_of_ne (h.1 q (by simp)) hpq
        have hall : ∀ x ∈ q :: t, p.1 < x.1 := by
          intro x hx
          rcases List.mem_cons.1 hx with rfl | hx
          · exact hq
          · exact Nat.lt_of_lt_of_le hq ((List.pairwise_cons.1 h.2).1 x hx)
        simp only [beq_iff_eq, hpq, if_false, List.map_cons]
        rw [ih']
        congr 1
        · simp only [List.head?_cons, Option.map_some, if_true, Prod.mk.injEq, true_and]
          rw [sumOf_cons, sumOf_zero_of_lt _ _ hall]
          simp only [if_true]; abel
        · apply List.map_congr_left
          intro k hk
          rw [mem_keysAdj] at hk
          obtain ⟨x, hx, rfl⟩ := List.mem_map.1 hk
          have hlt := hall x hx
          have hne : p.1 ≠ x.1 := Nat.ne_of_lt hlt
          simp only [List.head?_cons, Option.map_some, Option.some.injEq, Prod.mk.injEq, true_and]
          rw [sumOf_cons p (q :: t)]
          simp only [hne, if_false, sub_self, ite_self, zero_add]

theorem diffs_none (l : List (Nat × R)) : diffs l none = diffs l (some 0) := by
  cases l with
  | nil => simp [diffs]
  | cons p t => cases p; simp [diffs]

theorem sumOf_perm (p q : List (Nat × R)) (h : p.Perm q) (k : Nat) : sumOf p k = sumOf q k := by
  unfold sumOf
  exact ((h.filter _).map _).sum_eq

/-- the former cumsum / run-end-difference variant = specification in exact arithmetic -/
theorem groupNpCumsum_eq_spec (pairs : List (Nat × R)) : groupNpCumsum pairs = groupSpec pairs := by
  have hs := isortBy_sorted (Prod.fst : Nat × R → Nat) pairs
  have hp := isortBy_perm (Prod.fst : Nat × R → Nat) pairs
  have h1 : groupNpCumsum pairs = core (isortBy Prod.fst pairs) 0 0 := by
    unfold groupNpCumsum core
    exact diffs_none _
  rw [h1, core_eq _ hs]
  unfold groupSpec
  have hk : keysAdj (isortBy Prod.fst pairs) = keysOf (pairs.map Prod.fst) := by
    apply List.Pairwise.eq_of_mem_iff (keysAdj_strict _ hs) (keysOf_strict _)
    intro a
    rw [mem_keysAdj, mem_keysOf, List.mem_map, List.mem_map]
    constructor
    · rintro ⟨x, hx, rfl⟩; exact ⟨x, hp.mem_iff.1 hx, rfl⟩
    · rintro ⟨x, hx, rfl⟩; exact ⟨x, hp.mem_iff.2 hx, rfl⟩
  rw [hk]
  apply List.map_congr_left
  intro k _
  simp only [sub_self, ite_self, zero_add, sumOf_perm _ _ hp]


/-! ### one sum per run (the current `_sum_by_group_sorted`) -/

theorem keysAdj_congr (a b : List (Nat × R)) (h : a.map Prod.fst = b.map Prod.fst) : keysAdj a = keysAdj b := by
  induction a generalizing b with
  | nil => cases b <;> simp_all [keysAdj]
  | cons p t ih =>
    cases b with
    | nil => simp at h
    | cons p' t' =>
      simp only [List.map_cons, List.cons.injEq] at h
      cases t with
      | nil =>
        cases t' with
        | nil => simp [keysAdj, h.1]
        | cons q' t'' => simp at h
      | cons q t2 =>
        cases t' with
        | nil => simp at h
        | cons q' t'' =>
          have hq : q.1 = q'.1 := by
            have := h.2; simp only [List.map_cons, List.cons.injEq] at this; exact this.1
          have ht := ih (q' :: t'') h.2
          unfold keysAdj
          rw [h.1, hq, ht]

theorem runSumsAux_eq (t : List (Nat × R)) (cur : Nat × R) (h : (cur :: t).Pairwise (fun a b => a.1 ≤ b.1)) :
    runSumsAux cur t = (keysAdj (cur :: t)).map (fun k => (k, sumOf (cur :: t) k)) := by
  induction t generalizing cur with
  | nil =>
    simp only [runSumsAux, keysAdj, List.map_cons, List.map_nil, sumOf_cons, if_true]
    simp [sumOf]
  | cons q t ih =>
    rw [List.pairwise_cons] at h
    rw [runSumsAux]
    by_cases hpq : cur.1 = q.1
    · simp only [hpq, beq_self_eq_true, if_true]
      have hs' : ((q.1, cur.2 + q.2) :: t).Pairwise (fun a b => a.1 ≤ b.1) := by
        have := h.2; rw [List.pairwise_cons] at this ⊢; exact this
      rw [ih _ hs']
      have hk : keysAdj ((q.1, cur.2 + q.2) :: t) = keysAdj (cur :: q :: t) := by
        have e1 : keysAdj ((q.1, cur.2 + q.2) :: t) = keysAdj (q :: t) := keysAdj_congr _ _ (by simp)
        rw [e1]; conv_rhs => unfold keysAdj
        simp [hpq]
      rw [hk]
      apply List.map_congr_left
      intro k _
      rw [sumOf_cons, sumOf_cons cur, sumOf_cons q]
      by_cases hkq : q.1 = k
      · simp [hpq, hkq, add_assoc]
      · simp [hpq, hkq]
    · have hq : cur.1 < q.1 := Nat.lt_of_le_of_ne (h.1 q (by simp)) hpq
      have hall : ∀ x ∈ q :: t, cur.1 < x.1 := by
        intro x hx
        rcases List.mem_cons.1 hx with rfl | hx
        · exact hq
        · exact Nat.lt_of_lt_of_le hq ((List.pairwise_cons.1 h.2).1 x hx)
      simp only [beq_iff_eq, hpq, if_false]
      rw [ih _ h.2]
      conv_rhs => unfold keysAdj
      simp only [beq_iff_eq, hpq, if_false, List.map_cons]
      congr 1
      · rw [sumOf_cons, sumOf_zero_of_lt _ _ hall]; simp
      · apply List.map_congr_left
        intro k hk
        rw [mem_keysAdj] at hk
        obtain ⟨x, hx, rfl⟩ := List.mem_map.1 hk
        have hne : cur.1 ≠ x.1 := Nat.ne_of_lt (hall x hx)
        rw [sumOf_cons cur]; simp [hne]

theorem runSums_eq (s : List (Nat × R)) (h : s.Pairwise (fun a b => a.1 ≤ b.1)) :
    runSums s = (keysAdj s).map (fun k => (k, sumOf s k)) := by
  cases s with
  | nil => simp [runSums, keysAdj]
  | cons p t => exact runSumsAux_eq t p h

/-- **numpy variant = specification**, for every list of (label, value) pairs -/
theorem groupNp_eq_spec (pairs : List (Nat × R)) : groupNp pairs = groupSpec pairs := by
  have hs := isortBy_sorted (Prod.fst : Nat × R → Nat) pairs
  have hp := isortBy_perm (Prod.fst : Nat × R → Nat) pairs
  unfold groupNp
  rw [runSums_eq _ hs]
  unfold groupSpec
  have hk : keysAdj (isortBy Prod.fst pairs) = keysOf (pairs.map Prod.fst) := by
    apply List.Pairwise.eq_of_mem_iff (keysAdj_strict _ hs) (keysOf_strict _)
    intro a
    rw [mem_keysAdj, mem_keysOf, List.mem_map, List.mem_map]
    constructor
    · rintro ⟨x, hx, rfl⟩; exact ⟨x, hp.mem_iff.1 hx, rfl⟩
    · rintro ⟨x, hx, rfl⟩; exact ⟨x, hp.mem_iff.2 hx, rfl⟩
  rw [hk]
  apply List.map_congr_left
  intro k _
  rw [sumOf_perm _ _ hp]

end PPV.Lemmas.GroupNp
