/- Tactics for goals about generated kernels at `ℝ`. -/
import PPV.Real
import Mathlib.Tactic.Ring
import Mathlib.Tactic.NormNum
import Mathlib.Tactic.FieldSimp
import Mathlib.Tactic.Linarith

namespace PPV

/-- unfold the `NumOps ℝ` vocabulary of a generated kernel into plain real arithmetic -/
macro "kunfold" : tactic =>
  `(tactic| simp only [NumOps.real_ofN, NumOps.real_nabs, NumOps.real_nmax, NumOps.real_nmin, NumOps.real_nexp,
      NumOps.real_nlog, NumOps.real_nlog10, NumOps.real_nsqrt, NumOps.real_npow, NumOps.real_lt, NumOps.real_le,
      NumOps.real_neq, NumOps.real_isNaN, NumOps.real_pi, NumOps.real_sq, NumOps.real_cube, NumOps.real_sel,
      NumOps.real_isclose, Nat.cast_ofNat, Nat.cast_zero, Nat.cast_one, decide_eq_true_eq, Bool.not_eq_true',
      decide_eq_false_iff_not, Bool.and_eq_true, Bool.or_eq_true, Bool.not_false, Bool.not_true, Bool.false_eq_true,
      if_false, if_true, ite_not] at *)

/-- closes a field-wise goal left after unfolding two generated twins.  (`ring` alone mis-handles
    scientific literals such as `1.0`, so they are evaluated by `norm_num only` first.) -/
macro "kclose" : tactic =>
  `(tactic| first | trivial | rfl | ((try norm_num only); ring; done) | (norm_num; done))

end PPV
