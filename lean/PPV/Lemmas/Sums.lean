/- Bridge between the executable folds of the model and `Finset` sums, and the incidence algebra
   (`netIn`, `incidence_swap`, `global_balance`) used by C01, C03, C08, C10. -/
import Mathlib.Algebra.BigOperators.Group.Finset.Basic
import Mathlib.Algebra.BigOperators.Ring.Finset
import Mathlib.Algebra.BigOperators.Fin
import Mathlib.Data.Fintype.BigOperators
import Mathlib.Tactic.Ring
import PPV.Model.Assemble

open Finset BigOperators
namespace PPV.Lemmas
open PPV.Model.Assemble

variable {R : Type} [CommRing R] {n b : ℕ}

theorem sumFin_eq_sum (f : Fin b → R) : sumFin f = ∑ k, f k := by
  unfold sumFin
  have : ∀ l : List (Fin b), l.foldr (fun k acc => f k + acc) 0 = (l.map f).sum := by
    intro l; induction l with
    | nil => simp
    | cons a t ih => simp [ih]
  rw [this, ← List.ofFn_eq_map, List.sum_ofFn]

/-- net inflow into node `i` -/
def netIn (fn tn : Fin b → Fin n) (m : Fin b → R) (i : Fin n) : R :=
  (∑ k, if tn k = i then m k else 0) - (∑ k, if fn k = i then m k else 0)

theorem incidence_swap (fn tn : Fin b → Fin n) (m : Fin b → R) (p : Fin n → R) :
    ∑ i, p i * netIn fn tn m i = ∑ k, m k * (p (tn k) - p (fn k)) := by
  unfold netIn
  simp only [mul_sub, Finset.mul_sum, Finset.sum_sub_distrib]
  rw [Finset.sum_comm]
  congr 1
  · apply Finset.sum_congr rfl; intro k _
    simp [Finset.sum_ite_eq, mul_comm]
  · rw [Finset.sum_comm]
    apply Finset.sum_congr rfl; intro k _
    simp [Finset.sum_ite_eq, mul_comm]

theorem global_balance (fn tn : Fin b → Fin n) (m : Fin b → R) : ∑ i, netIn fn tn m i = 0 := by
  have := incidence_swap fn tn m (fun _ => (1:R))
  simpa using this

theorem netIn_sub_smul (fn tn : Fin b → Fin n) (m x : Fin b → R) (a : R) (i : Fin n) :
    netIn fn tn (fun k => m k - a * x k) i = netIn fn tn m i - a * netIn fn tn x i := by
  unfold netIn
  simp only [mul_sub, Finset.mul_sum, ← Finset.sum_sub_distrib]
  apply Finset.sum_congr rfl; intro k _
  split_ifs <;> ring

end PPV.Lemmas
