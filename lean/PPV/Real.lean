/-
  The `ℝ` instance of `NumOps`: the number type all property theorems are stated in.
  IEEE rounding is not modelled (see DESIGN.md §7): `+ - * /` are the field operations,
  `exp/log/sqrt/rpow` are Mathlib's, comparisons are the classical decidable order, NaN does not exist.
-/
import Mathlib.Data.Real.Basic
import Mathlib.Analysis.SpecialFunctions.Pow.Real
import Mathlib.Analysis.SpecialFunctions.Log.Base
import Mathlib.Analysis.SpecialFunctions.Sqrt
import Mathlib.Analysis.SpecialFunctions.Trigonometric.Basic
import PPV.Model.NumOps

namespace PPV

noncomputable instance instNumOpsReal : NumOps ℝ where
  ofN := fun n => (n : ℝ)
  nabs := fun x => |x|
  nmax := max
  nmin := min
  nexp := Real.exp
  nlog := Real.log
  nlog10 := Real.logb 10
  nsqrt := Real.sqrt
  npow := fun x y => x ^ y
  lt := fun a b => decide (a < b)
  le := fun a b => decide (a ≤ b)
  neq := fun a b => decide (a ≠ b)
  isNaN := fun _ => false
  pi := Real.pi

namespace NumOps
/-! the parent-structure projections of the `ℝ` instance are Mathlib's own instances; rewriting them to
    their canonical form keeps `ring` / `norm_num` / `field_simp` working on generated terms -/
theorem real_toAdd : (instNumOpsReal.toAdd) = Real.instAdd := rfl
theorem real_toSub : (instNumOpsReal.toSub) = Real.instSub := rfl
theorem real_toMul : (instNumOpsReal.toMul) = Real.instMul := rfl
theorem real_toNeg : (instNumOpsReal.toNeg) = Real.instNeg := rfl
theorem real_toDiv : (instNumOpsReal.toDiv) = (inferInstance : Div ℝ) := rfl
theorem real_toOfScientific : (instNumOpsReal.toOfScientific) = (inferInstance : OfScientific ℝ) := rfl

@[simp] theorem real_ofN (n : Nat) : (NumOps.ofN n : ℝ) = (n : ℝ) := rfl
@[simp] theorem real_nabs (x : ℝ) : NumOps.nabs x = |x| := rfl
@[simp] theorem real_nmax (x y : ℝ) : NumOps.nmax x y = max x y := rfl
@[simp] theorem real_nmin (x y : ℝ) : NumOps.nmin x y = min x y := rfl
@[simp] theorem real_nexp (x : ℝ) : NumOps.nexp x = Real.exp x := rfl
@[simp] theorem real_nlog (x : ℝ) : NumOps.nlog x = Real.log x := rfl
@[simp] theorem real_nlog10 (x : ℝ) : NumOps.nlog10 x = Real.logb 10 x := rfl
@[simp] theorem real_nsqrt (x : ℝ) : NumOps.nsqrt x = Real.sqrt x := rfl
@[simp] theorem real_npow (x y : ℝ) : NumOps.npow x y = x ^ y := rfl
@[simp] theorem real_lt (x y : ℝ) : NumOps.lt x y = decide (x < y) := rfl
@[simp] theorem real_le (x y : ℝ) : NumOps.le x y = decide (x ≤ y) := rfl
@[simp] theorem real_neq (x y : ℝ) : NumOps.neq x y = decide (x ≠ y) := rfl
@[simp] theorem real_isNaN (x : ℝ) : NumOps.isNaN x = false := rfl
@[simp] theorem real_pi : (NumOps.pi : ℝ) = Real.pi := rfl
@[simp] theorem real_sq (x : ℝ) : NumOps.sq x = x * x := rfl
@[simp] theorem real_cube (x : ℝ) : NumOps.cube x = x ^ (3:ℕ) := by
  have : NumOps.cube x = x ^ ((3:ℕ):ℝ) := rfl
  rw [this, Real.rpow_natCast]
@[simp] theorem real_sel (c : Bool) (a b : ℝ) : NumOps.sel c a b = if c then a else b := rfl
@[simp] theorem real_isclose (a b r t : ℝ) : NumOps.isclose a b r t = decide (|a - b| ≤ t + r * |b|) := rfl
end NumOps

/-- rewrite the instance projections of generated terms at `ℝ` into Mathlib's canonical instances -/
macro "numops_norm" : tactic =>
  `(tactic| try simp only [NumOps.real_toAdd, NumOps.real_toSub, NumOps.real_toMul, NumOps.real_toNeg,
      NumOps.real_toDiv, NumOps.real_toOfScientific] at *)

end PPV
