/- Line-protocol glue for `Model/Options.lean`. -/
import PPV.Model.Options
import PPV.Gen.DefaultOptions
namespace PPV.Model.Options.Run
open PPV.Model.Options

def parseVal (s : String) : OptVal :=
  match s.splitOn ":" with
  | ["n"] => .none
  | ["b", v] => .b (v == "1")
  | ["i", v] => .i (v.toInt?.getD 0)
  | "f" :: rest => .f (":".intercalate rest)
  | "s" :: rest => .s (":".intercalate rest)
  | _ => .none

def parseLayer (s : String) : Layer :=
  ((s.splitOn ";").filter (fun t => t.trimAscii.toString ≠ "")).map fun kv =>
    match kv.trimAscii.toString.splitOn "=" with
    | k :: rest => (k, parseVal ("=".intercalate rest))
    | [] => ("", .none)

def showVal : OptVal → String
  | .none => "n"
  | .b v => if v then "b:1" else "b:0"
  | .i v => s!"i:{v}"
  | .f r => s!"f:{r}"
  | .s v => s!"s:{v}"

def insertSorted (p : String × OptVal) : List (String × OptVal) → List (String × OptVal)
  | [] => [p]
  | q :: t => if p.1 < q.1 then p :: q :: t else q :: insertSorted p t

def showLayer (l : Layer) : String :=
  ";".intercalate ((l.foldr insertSorted []).map fun p => p.1 ++ "=" ++ showVal p.2)

/-- `options <numba 0/1> <fluid> :: user :: kw` -/
def handle (numba : String) (fluid : String) (user kw : String) : String :=
  showLayer (initOptions PPV.Gen.DefaultOptions.defaults (parseLayer user) (parseLayer kw) (numba == "1") fluid)

end PPV.Model.Options.Run
