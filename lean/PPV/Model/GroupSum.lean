/-
  Model of `pf/internals_toolbox.py`: `_sum_by_group_np` (argsort + one sum per run of equal labels),
  `_sum_by_group_numba` / `_sum_values_by_index` (bucket accumulation) and of index lookups
  (`create_lookups`: dense array, label ↦ position).  Core-only, executable (run at `Int` by the driver).
-/
namespace PPV.Model.GroupSum

variable {α : Type} [Add α] [Sub α] [Zero α]

/-- insertion sort by a key (structural recursion, so the kernel can evaluate it); stable -/
def insertBy {β : Type} (key : β → Nat) (x : β) : List β → List β
  | [] => [x]
  | y :: t => if key x < key y then x :: y :: t else y :: insertBy key x t

def isortBy {β : Type} (key : β → Nat) : List β → List β
  | [] => []
  | x :: t => insertBy key x (isortBy key t)

/-- remove duplicates, keeping first occurrences (structural) -/
def dedup : List Nat → List Nat
  | [] => []
  | x :: t => x :: (dedup t).filter (· != x)

/-- ascending, duplicate-free keys -/
def keysOf (idx : List Nat) : List Nat := isortBy id (dedup idx)

/-- specification: the sum of all values carrying key `k` -/
def sumOf (pairs : List (Nat × α)) (k : Nat) : α := ((pairs.filter (fun p => p.1 == k)).map Prod.snd).sum

def groupSpec (pairs : List (Nat × α)) : List (Nat × α) := (keysOf (pairs.map Prod.fst)).map fun k => (k, sumOf pairs k)

/-- numba variant: accumulate into buckets (`summed_values[ind] += value`), then read the used buckets in
    ascending order -/
def bucketAcc (pairs : List (Nat × α)) : Nat → α :=
  pairs.foldl (fun acc p => fun i => if i = p.1 then acc i + p.2 else acc i) (fun _ => 0)

def groupBucket (pairs : List (Nat × α)) : List (Nat × α) :=
  (keysOf (pairs.map Prod.fst)).map fun k => (k, bucketAcc pairs k)

/-- running sums -/
def cumsum : List α → α → List α
  | [], _ => []
  | x :: t, acc => (acc + x) :: cumsum t (acc + x)

/-- keep the entries at the end of each run of equal keys -/
def runEnds : List (Nat × α) → List (Nat × α)
  | [] => []
  | [p] => [p]
  | p :: q :: t => if p.1 == q.1 then runEnds (q :: t) else p :: runEnds (q :: t)

/-- `val[1:] = val[1:] - val[:-1]` -/
def diffs : List (Nat × α) → Option α → List (Nat × α)
  | [], _ => []
  | p :: t, none => p :: diffs t (some p.2)
  | p :: t, some prev => (p.1, p.2 - prev) :: diffs t (some p.2)

/-- the numpy variant as it was before the grouped-sum repair: sort by key, cumulate over the whole array, take run ends,
    difference.  Equal to the specification in exact arithmetic (`groupNpCumsum_eq_spec`), but in floating point every
    group's sum inherits the rounding of the largest running total before it — the defect that was repaired. -/
def groupNpCumsum (pairs : List (Nat × α)) : List (Nat × α) :=
  let sorted := isortBy Prod.fst pairs
  let cs := cumsum (sorted.map Prod.snd) 0
  diffs (runEnds ((sorted.map Prod.fst).zip cs)) none

/-- sum each run of equal keys on its own (`np.add.reduceat` at the run starts) -/
def runSumsAux : Nat × α → List (Nat × α) → List (Nat × α)
  | cur, [] => [cur]
  | cur, q :: t => if cur.1 == q.1 then runSumsAux (q.1, cur.2 + q.2) t else cur :: runSumsAux q t

def runSums : List (Nat × α) → List (Nat × α)
  | [] => []
  | p :: t => runSumsAux p t

/-- numpy variant (`_sum_by_group_np`): stable sort by key, then one sum per run of equal keys -/
def groupNp (pairs : List (Nat × α)) : List (Nat × α) := runSums (isortBy Prod.fst pairs)

/-- index lookup: position of a label in a table's index column (dense array `lookup[label] = position`) -/
def lookupPos (labels : List Nat) (l : Nat) : Option Nat := labels.idxOf? l

end PPV.Model.GroupSum
