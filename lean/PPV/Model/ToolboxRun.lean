import PPV.Model.Toolbox
namespace PPV.Model.Toolbox.Run
open PPV.Model.Toolbox

def toks (s : String) (sep : String) : List String := (s.splitOn sep).filter (fun t => t.trimAscii.toString ≠ "")
def nats (s : String) : List Nat := (toks s ".").map (fun t => t.trimAscii.toString.toNat!)

/-- elem: `table,idx,j1.j2,pref|-` -/
def parseElem (s : String) : Elem :=
  match (s.trimAscii.toString.splitOn ",") with
  | [t, i, js, p] => ⟨t, i.toNat!, nats js, if p == "-" then none else some p.toNat!⟩
  | _ => ⟨"?", 0, [], none⟩

def parseOp (s : String) : Option Op :=
  match toks s " " with
  | ["rj", n] => some (.reindexJ n.toNat!)
  | ["rp", n] => some (.reindexP n.toNat!)
  | ["dj", l] => some (.dropJ (nats l))
  | ["dp", l] => some (.dropP (nats l))
  | ["fu", a, l] => some (.fuse a.toNat! (nats l))
  | _ => none

def insertSorted (x : String) : List String → List String
  | [] => [x]
  | y :: t => if x < y then x :: y :: t else y :: insertSorted x t

def showElem (e : Elem) : String :=
  s!"{e.table},{e.idx},{".".intercalate (e.jrefs.map toString)},{match e.pref with | some p => toString p | none => "-"}"

def showNet (n : Net) : String :=
  let js := (n.junctions.map toString).foldr insertSorted []
  let es := ((n.pipes ++ n.elems).map showElem).foldr insertSorted []
  " ".intercalate js ++ " | " ++ " ; ".intercalate es

/-- `toolbox :: junctions :: pipes ; … :: elems ; … :: ops ; …` -/
def handle (parts : List String) : String :=
  let n : Net := { junctions := (toks (parts.getD 1 "") " ").map (·.toNat!),
                   pipes := (toks (parts.getD 2 "") ";").map parseElem,
                   elems := (toks (parts.getD 3 "") ";").map parseElem }
  let ops := (toks (parts.getD 4 "") ";").filterMap parseOp
  showNet (ops.foldl (fun acc op => op.apply acc) n)

end PPV.Model.Toolbox.Run
