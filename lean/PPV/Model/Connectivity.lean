/-
  Model of the supply search: `pf/pipeflow_setup.py: check_connectivity, perform_connectivity_search,
  _connectivity` (graph search from a virtual slack node over in-service branches, directed branches
  passable from→to only, flow/return connectors handled afterwards) and of the renumbering done by
  `reduce_pit` (`cumsum(connected) - 1`).  Core-only, executable; `scipy.sparse.csgraph.breadth_first_order`
  is replaced by `n` rounds of frontier expansion (proved equal to reachability in Props/C04.lean) and
  validated against the real function by the correspondence check.
-/
namespace PPV.Model.Connectivity

structure ConnIn (n b : Nat) where
  fn : Fin b → Fin n
  tn : Fin b → Fin n
  brActive : Fin b → Bool       -- ACTIVE flag of the branch (in_service / opened / …)
  directed : Fin b → Bool       -- DIRECTED
  flowReturn : Fin b → Bool     -- FLOW_RETURN_CONNECT
  nodeActive : Fin n → Bool     -- ACTIVE flag of the node
  isSlack : Fin n → Bool        -- NODE_TYPE == P  (thermal: NODE_TYPE_T ∈ {T, GE})

variable {n b : Nat}

/-- can the search step from `u` to `v`? (branches used by the graph: active and not a flow/return connector) -/
def ConnIn.edge (c : ConnIn n b) (u v : Fin n) : Bool :=
  (List.finRange b).any fun k =>
    c.brActive k && !c.flowReturn k &&
      ((c.fn k == u && c.tn k == v) || (!c.directed k && c.tn k == u && c.fn k == v))

/-- one round of frontier expansion -/
def expand (edge : Fin n → Fin n → Bool) (vis : Fin n → Bool) : Fin n → Bool :=
  fun v => vis v || (List.finRange n).any (fun u => vis u && edge u v)

/-- function-level rounds (specification form, used by the theorems) -/
def iter (edge : Fin n → Fin n → Bool) (vis : Fin n → Bool) : Nat → (Fin n → Bool)
  | 0 => vis
  | k + 1 => expand edge (iter edge vis k)

/-- read a mask stored as an array -/
def toFun (a : Array Bool) : Fin n → Bool := fun i => a.getD i.val false

/-- array-level rounds (what the driver executes: each round materialises the visited mask once) -/
def iterA (edge : Fin n → Fin n → Bool) (vis : Fin n → Bool) : Nat → Array Bool
  | 0 => Array.ofFn vis
  | k + 1 => let a := iterA edge vis k; Array.ofFn (expand edge (toFun a))

theorem toFun_ofFn (f : Fin n → Bool) : toFun (Array.ofFn f) = f := by
  funext i; simp [toFun, Array.getD]

theorem iterA_eq_iter (edge : Fin n → Fin n → Bool) (vis : Fin n → Bool) (k : Nat) :
    toFun (iterA edge vis k) = iter edge vis k := by
  induction k with
  | zero => simp [iterA, iter, toFun_ofFn]
  | succ k ih => simp only [iterA, iter, toFun_ofFn, ih]

/-- nodes reachable from an in-service slack: the `nodes_connected` mask -/
def ConnIn.nodesConnected (c : ConnIn n b) : Fin n → Bool :=
  toFun (iterA c.edge (fun i => c.isSlack i && c.nodeActive i) n)

theorem ConnIn.nodesConnected_eq (c : ConnIn n b) :
    c.nodesConnected = iter c.edge (fun i => c.isSlack i && c.nodeActive i) n := iterA_eq_iter _ _ _

/-- the `branches_connected` mask -/
def ConnIn.branchesConnectedWith (c : ConnIn n b) (nc : Fin n → Bool) (k : Fin b) : Bool :=
  if c.flowReturn k then nc (c.fn k) && nc (c.tn k) && c.brActive k
  else c.brActive k && nc (c.fn k)

def ConnIn.branchesConnected (c : ConnIn n b) : Fin b → Bool := c.branchesConnectedWith c.nodesConnected

/-- `np.cumsum(connected) - 1` at position `i` -/
def renumber (conn : Fin n → Bool) (i : Fin n) : Nat :=
  ((List.finRange n).filter (fun j => j.val < i.val && conn j)).length

def countConnected (conn : Fin n → Bool) : Nat := ((List.finRange n).filter conn).length

end PPV.Model.Connectivity
