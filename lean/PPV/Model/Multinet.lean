/-
  Model of the convergence bookkeeping of the multi-energy control loop
  (`multinet/control/run_control_multinet.py: _evaluate_multinet`, `net_initialization_multinet`): the multinet flag is
  the conjunction of the member nets' flags.
-/
namespace PPV.Model.Multinet

/-- `_evaluate_multinet`: `ctrl_variables['converged'] = np.all(multinet_converged)` -/
def evaluateAll (flags : List Bool) : Bool := flags.all id

/-- `net_initialization_multinet` as implemented: `np.max(...)` of the member flags -/
def initMax (flags : List Bool) : Bool := flags.any id

end PPV.Model.Multinet
