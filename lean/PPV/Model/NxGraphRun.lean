import PPV.Model.NxGraph
namespace PPV.Model.NxGraph.Run
open PPV.Model.NxGraph

def toks (s : String) (sep : String) : List String := (s.splitOn sep).filter (fun t => t.trimAscii.toString ≠ "")

/-- branch: `table,idx,fj,tj,inService,pipeValve` -/
def parseB (s : String) : GBranch :=
  match s.trimAscii.toString.splitOn "," with
  | [t, i, a, b, sv, pv] => ⟨t, i.toNat!, a.toNat!, b.toNat!, sv == "1", pv == "1"⟩
  | _ => ⟨"?", 0, 0, 0, false, false⟩

def insertSorted (x : String) : List String → List String
  | [] => [x]
  | y :: t => if x < y then x :: y :: t else y :: insertSorted x t

/-- `nxgraph <respectStatus> <respectValves> :: nodes :: dead junctions :: slacks :: branches ; …`
    → sorted edge list `| unsupplied` -/
def handle (rs rv : String) (parts : List String) : String :=
  let nodes := (toks (parts.getD 1 "") " ").map (·.toNat!)
  let dead := (toks (parts.getD 2 "") " ").map (·.toNat!)
  let slacks := (toks (parts.getD 3 "") " ").map (·.toNat!)
  let bs := (toks (parts.getD 4 "") ";").map parseB
  let es := edges bs (rs == "1") (rv == "1") dead
  let alive := nodes.filter (fun j => !dead.contains j)
  let showE := fun (e : Edge) => s!"{min e.u e.v}-{max e.u e.v}:{e.table}:{e.idx}"
  let un := (unsupplied alive es slacks).map toString
  " ".intercalate ((es.map showE).foldr insertSorted []) ++ " | " ++ " ".intercalate (un.foldr insertSorted [])

end PPV.Model.NxGraph.Run
