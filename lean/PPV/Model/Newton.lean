/-
  Model of the Newton driver: `pipeflow.py: newton_raphson, finalize_iteration, set_damping_factor`
  and of the run-level control flow of `pipeflow / hydraulics / heat_transfer / bidirectional`.

  The per-iteration function is an *arbitrary* stream of observations (one error per solver variable
  and a residual norm, each possibly NaN), so everything proved here holds for every error/residual
  pattern, including those produced by singular or ill-conditioned linear solves.

  Core-only and executable: the correspondence check drives the real `newton_raphson` with scripted
  iteration functions and compares converged flag, iteration count, damping-factor trace and the
  per-variable restore decisions with `runLoop`.
-/
namespace PPV.Model.Newton

/-- a float that may be NaN; every comparison with NaN is false (IEEE / numpy) -/
inductive XR where
  | nan
  | val (q : Rat)
  deriving DecidableEq, Repr, Inhabited

def XR.le : XR → XR → Bool
  | .val a, .val b => a ≤ b
  | _, _ => false
def XR.gt : XR → XR → Bool
  | .val a, .val b => b < a
  | _, _ => false
def XR.isNaN : XR → Bool
  | .nan => true
  | _ => false

/-- what one call of the per-iteration function yields -/
structure Obs where
  errs : List XR      -- max |new - old| per solver variable (in solver_vars order)
  resid : XR          -- max |residual|
  deriving Repr, Inhabited

structure Cfg where
  maxIter : Nat
  automatic : Bool          -- nonlinear_method == "automatic"
  tols : List XR            -- tolerance per solver variable
  tolRes : XR
  deriving Repr

structure State where
  niter : Nat := 0
  alpha : Rat := 1
  converged : Bool := false
  prevErrs : List XR := []          -- errors of the previous iteration (empty before the first)
  lastObs : Option Obs := none      -- observation of the last executed iteration (ghost, for the theorems)
  /-- per executed iteration: (alpha in force for that step, alpha chosen afterwards, which variables were
      put back to their old value, converged flag after the iteration) -/
  trace : List (Rat × Rat × List Bool × Bool) := []
  deriving Repr

/-- `error[niter] > error[niter-1]` per variable; in iteration 0 python's index -1 is the same element -/
def increased (prev cur : List XR) : List Bool :=
  if prev.isEmpty then cur.map (fun _ => false) else List.zipWith (fun c p => XR.gt c p) cur prev

/-- `set_damping_factor`: new alpha -/
def newAlpha (alpha : Rat) (inc : List Bool) : Rat :=
  if inc.all id then (if alpha ≥ 1/10 then alpha / 10 else alpha)
  else (if alpha ≤ 1/10 then alpha * 10 else 1)

/-- the tolerance test of `finalize_iteration`: every error within its tolerance and the residual too -/
def withinTol (cfg : Cfg) (o : Obs) : Bool :=
  (List.zip o.errs cfg.tols).all (fun p => XR.le p.1 p.2) && XR.le o.resid cfg.tolRes

/-- one pass through the `while` body (`funct` + `finalize_iteration` + `niter += 1`) -/
def step (cfg : Cfg) (s : State) (o : Obs) : State :=
  if cfg.automatic then
    let inc := increased s.prevErrs o.errs
    let a' := newAlpha s.alpha inc
    let conv := if a' ≠ 1 then false else withinTol cfg o
    { niter := s.niter + 1, alpha := a', converged := conv, prevErrs := o.errs, lastObs := some o,
      trace := s.trace ++ [(s.alpha, a', inc, conv)] }
  else
    let conv := withinTol cfg o
    { niter := s.niter + 1, alpha := s.alpha, converged := conv, prevErrs := o.errs, lastObs := some o,
      trace := s.trace ++ [(s.alpha, s.alpha, o.errs.map (fun _ => false), conv)] }

/-- `while not net.converged and niter < max_iter`, fed from an observation stream -/
def runLoop (cfg : Cfg) : State → List Obs → State
  | s, [] => s
  | s, o :: rest => if !s.converged && s.niter < cfg.maxIter then runLoop cfg (step cfg s o) rest else s

/-! ### run-level control flow -/

/-- outcome of one solver stage as seen by `pipeflow` -/
inductive StageOutcome where
  | converged
  | notConverged
  | raised            -- any other exception escaping the stage
  deriving DecidableEq, Repr

/-- the user-visible part of the net that `pipeflow` owns -/
structure NetFlags where
  converged : Bool
  resultsPresent : Bool      -- does any result table hold a number
  deriving DecidableEq, Repr

inductive RunResult where
  | returned
  | notConvergedError
  | otherError
  deriving DecidableEq, Repr

/-- `pipeflow(net, mode=…)`: result tables are re-initialised to NaN, `net.converged := False`, then the
    stages run in order; the first stage that does not converge raises; results are extracted only at
    the very end.  `stages` lists the outcomes of the stages in execution order (1 for hydraulics /
    heat / bidirectional, 2 for sequential). -/
def pipeflowRun (_before : NetFlags) (stages : List StageOutcome) : NetFlags × RunResult :=
  let rec go : List StageOutcome → Bool → NetFlags × RunResult
    | [], lastConv => ({ converged := lastConv, resultsPresent := lastConv }, .returned)
    | .converged :: rest, _ => go rest true
    | .notConverged :: _, _ => ({ converged := false, resultsPresent := false }, .notConvergedError)
    | .raised :: _, c => ({ converged := c, resultsPresent := false }, .otherError)
  go stages false

/-- a whole history of runs on one net object -/
def history (init : NetFlags) (runs : List (List StageOutcome)) : NetFlags × List RunResult :=
  runs.foldl (fun (acc : NetFlags × List RunResult) st =>
    let r := pipeflowRun acc.1 st
    (r.1, acc.2 ++ [r.2])) (init, [])

end PPV.Model.Newton
