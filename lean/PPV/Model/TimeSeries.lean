/-
  Model of the time-series loop (`timeseries/run_time_series.py: run_loop` delegating to pandapower's
  `run_time_step`): for every time step the constant controllers overwrite their controlled cells with the
  step's profile row, the run function (pipeflow: a function of the user-visible net, C12) is executed,
  and the output writer logs the result or the divergence.
-/
namespace PPV.Model.TimeSeries

structure Sys (Net Row Res : Type) where
  /-- ConstControl.time_step + control_step: write the profile row into the controlled cells -/
  apply : Net → Row → Net
  /-- pipeflow on the user-visible description: `none` = PipeflowNotConverged -/
  run : Net → Option Res

variable {Net Row Res : Type}

/-- one time step: returns the net the next step starts from and what is logged -/
def step (S : Sys Net Row Res) (n : Net) (r : Row) : Net × Option Res :=
  let n' := S.apply n r
  (n', S.run n')

/-- the loop with `continue_on_divergence=True`: every step is executed and logged -/
def loopContinue (S : Sys Net Row Res) : Net → List Row → List (Option Res)
  | _, [] => []
  | n, r :: t => let (n', o) := step S n r; o :: loopContinue S n' t

/-- the loop with `continue_on_divergence=False`: stops after the first diverged step (the error is raised) -/
def loopStop (S : Sys Net Row Res) : Net → List Row → List (Option Res)
  | _, [] => []
  | n, r :: t => let (n', o) := step S n r
                 match o with
                 | none => [none]
                 | some x => some x :: loopStop S n' t

end PPV.Model.TimeSeries
