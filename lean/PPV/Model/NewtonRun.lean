/- Line-protocol glue for `Model/Newton.lean`. -/
import PPV.Model.Newton
namespace PPV.Model.Newton.Run
open PPV.Model.Newton

def parseRat (s : String) : Rat :=
  match s.splitOn "/" with
  | [a] => (a.toInt?.getD 0 : Int)
  | [a, b] => mkRat (a.toInt?.getD 0) (b.toNat?.getD 1)
  | _ => 0

def parseXR (s : String) : XR := if s == "nan" then .nan else .val (parseRat s)
def toks (s : String) : List String := (s.splitOn " ").filter (· ≠ "")
def parseObs (s : String) : Obs :=
  match toks s with
  | [] => ⟨[], .nan⟩
  | r :: es => ⟨es.map parseXR, parseXR r⟩      -- residual first, then one error per variable

def showRat (q : Rat) : String := s!"{q.num}/{q.den}"
def showBools (l : List Bool) : String := String.ofList (l.map fun b => if b then '1' else '0')

/-- `newton <automatic> <maxIter> <alpha0> :: tols :: tolRes :: obs ; obs ; …`
    → `converged niter alpha :: (alphaIn alphaOut restored converged) ; …` -/
def handle (auto maxIter alpha0 : String) (parts : List String) : String :=
  let cfg : Cfg := { maxIter := maxIter.toNat!, automatic := auto == "1", tols := (toks (parts.getD 1 "")).map parseXR,
                     tolRes := parseXR ((parts.getD 2 "").trimAscii.toString) }
  let obs := (((parts.getD 3 "").splitOn ";").filter (fun t => t.trimAscii.toString ≠ "")).map parseObs
  let s := runLoop cfg { alpha := parseRat alpha0 } obs
  let tr := s.trace.map fun (a, a', inc, c) => s!"{showRat a} {showRat a'} {showBools inc} {if c then 1 else 0}"
  s!"{if s.converged then 1 else 0} {s.niter} {showRat s.alpha} :: " ++ " ; ".intercalate tr

end PPV.Model.Newton.Run
