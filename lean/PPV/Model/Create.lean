/-
  Interpretation of the generated create-function flows (Gen/CreateFlows.lean): a flow is a word over
  `A` (add_new_component), `K` (check / raise / refusal), `W` (row write).  Executing a flow against an outcome
  of its checks either performs all its writes or stops at the first failing check; whatever was written
  before that check persists (Python does not roll back).
-/
import PPV.Gen.CreateFlows
namespace PPV.Model.Create

inductive Prim where | A | K | W
  deriving DecidableEq, Repr

def parse (s : String) : List Prim :=
  s.toList.filterMap fun c => if c = 'A' then some .A else if c = 'K' then some .K else if c = 'W' then some .W else none

/-- observable effect of a (possibly failing) create call -/
structure Effect where
  raised : Bool
  tableCreated : Bool      -- an `A` was executed (matters only when the table did not exist yet)
  rowsWritten : Nat        -- number of `W` executed
  deriving DecidableEq, Repr

/-- run the flow; `fails k` says whether the k-th check (0-based) fails -/
def go (fails : Nat → Bool) : List Prim → Nat → Effect → Effect
  | [], _, e => e
  | .A :: t, k, e => go fails t k { e with tableCreated := true }
  | .W :: t, k, e => go fails t k { e with rowsWritten := e.rowsWritten + 1 }
  | .K :: t, k, e => if fails k then { e with raised := true } else go fails t (k + 1) e

def exec (flow : List Prim) (fails : Nat → Bool) : Effect := go fails flow 0 ⟨false, false, 0⟩

/-- no check comes after the first row write -/
def checksPrecedeWrites : List Prim → Bool
  | [] => true
  | .W :: t => !t.contains .K
  | _ :: t => checksPrecedeWrites t

/-- no check comes after the element table is created -/
def checksPrecedeTable : List Prim → Bool
  | [] => true
  | .A :: t => !t.contains .K
  | _ :: t => checksPrecedeTable t

end PPV.Model.Create
