/-
  Hand-written glue around two generated kernels: `get_branch_results_gas_numba`
  (src/pandapipes/pf/result_extraction.py) calls `get_pressures_numba`, evaluates the fluid's compressibility at
  the three (pressure, temperature) pairs and hands everything to `get_gas_vel_numba`.  The two numba kernels are
  generated (`Gen/Kernels.lean`: `gasPressuresNumba`, `gasVelNumba`); the wrapper has list / star-argument code the
  kernel translator does not accept, so it is modelled here and tied by the `gasResultsNumba` correspondence
  (harness/kernel_selfcheck.py: the real wrapper on random pits with an affine stand-in fluid).
  Core-only (the driver runs it at `Float`).
-/
import PPV.Gen.Kernels

namespace PPV.Model.GasResults
open PPV PPV.Gen PPV.Gen.Kernels NumOps

variable {α : Type} [NumOps α]

/-- temperatures the wrapper hands to the compressibility at the declared from-end / to-end of a branch row:
    `t_from = np.where(switched_t, branch_pit[:, TOUTINIT], node_pit[from_nodes, TINIT])`,
    `t_to = np.where(switched_t, node_pit[to_nodes, TINIT], branch_pit[:, TOUTINIT])` -/
def wrapperTFrom (b : BranchRow α) (nf nt : NodeRow α) : α :=
  sel (neq b.FROM_NODE_T_SWITCHED (ofN 0)) b.TOUTINIT nf.TINIT

def wrapperTTo (b : BranchRow α) (nf nt : NodeRow α) : α :=
  sel (neq b.FROM_NODE_T_SWITCHED (ofN 0)) nt.TINIT b.TOUTINIT

/-- `get_branch_results_gas_numba` for one branch row; `Z p T` is the fluid's compressibility. -/
def gasResultsNumba (b : BranchRow α) (nf nt : NodeRow α) (Z : α → α → α) (v_mps p_from p_to : α) :
    GasResultsNpOut α :=
  let P := gasPressuresNumba nf nt p_from p_to
  let t_from := wrapperTFrom b nf nt
  let t_to := wrapperTTo b nf nt
  let comp_from := Z P.p_abs_from t_from
  let comp_to := Z P.p_abs_to t_to
  let comp_mean := Z P.p_abs_mean ((t_from + t_to) / (ofN 2))
  let V := gasVelNumba b nf nt comp_from comp_to comp_mean P.p_abs_from P.p_abs_to P.p_abs_mean v_mps
  { v_gas_from := V.v_gas_from, v_gas_to := V.v_gas_to, v_gas_mean := V.v_gas_mean,
    p_abs_from := P.p_abs_from, p_abs_to := P.p_abs_to, p_abs_mean := P.p_abs_mean,
    normfactor_from := V.normfactor_from, normfactor_to := V.normfactor_to, normfactor_mean := V.normfactor_mean }

/-- driver entry: same argument layout as the generated runner of `gasResultsNp`
    ([branch row][from-node row][to-node row] v_mps p_from p_to c0 c1 c2, compressibility `c0 + c1 p + c2 T`) -/
def run (name : String) (a : Array Float) : Option (Array Float) :=
  match name with
  | "gasResultsNumba" =>
    let nb := IdxBranch.ncols
    let nn := IdxNode.ncols
    let b := BranchRow.ofArray (a.extract 0 nb)
    let nf := NodeRow.ofArray (a.extract nb (nb + nn))
    let nt := NodeRow.ofArray (a.extract (nb + nn) (nb + nn + nn))
    let o := nb + nn + nn
    let r := gasResultsNumba (α := Float) b nf nt (fun p t => a[o + 3]! + a[o + 4]! * p + a[o + 5]! * t) a[o]! a[o + 1]! a[o + 2]!
    some #[r.v_gas_from, r.v_gas_to, r.v_gas_mean, r.p_abs_from, r.p_abs_to, r.p_abs_mean,
           r.normfactor_from, r.normfactor_to, r.normfactor_mean]
  | _ => none

end PPV.Model.GasResults
