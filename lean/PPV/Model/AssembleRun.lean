/- Line-protocol glue for `Model/Assemble.lean`: parse integer pits, print the dense system. -/
import PPV.Model.Assemble
namespace PPV.Model.Assemble.Run
open PPV.Model.Assemble

def getI (a : Array Int) (i : Nat) : Int := a.getD i 0
def toFin (n : Nat) (h : 0 < n) (v : Int) : Fin n := ⟨v.toNat % n, Nat.mod_lt _ h⟩

/-- fields (each a space separated int list) separated by `|`:
 fn | tn | nodeType | branchType | jdm | jdp | jdp1 | jdmn | lvb | lvf | lvt | load | msl | jmsl  ; P=1, PC(node)=4, PC(branch)=1 -/
def parseFields (s : String) : Array (Array Int) :=
  ((s.splitOn "|").map fun f => ((f.splitOn " ").filter (· ≠ "")).map (fun t => t.toInt?.getD 0) |>.toArray).toArray

def unitHyd (n b : Nat) (c : Nat) (slackNodes : List (Fin n)) : HydVec Int n b :=
  { p := fun i => if i.val = c then 1 else 0,
    m := fun k => if n + k.val = c then 1 else 0,
    s := fun i => match slackNodes.idxOf? i with
                  | some j => if n + b + j = c then 1 else 0
                  | none => 0 }

def denseHyd (n b : Nat) (hn : 0 < n) (typeP typePCn typePCb : Int) (f : Array (Array Int)) : String :=
  let g := fun (j : Nat) (i : Nat) => getI (f.getD j #[]) i
  let S : HydSys Int n b :=
    { fn := fun k => toFin n hn (g 0 k), tn := fun k => toFin n hn (g 1 k),
      isSlack := fun i => g 2 i == typeP, isPcNode := fun i => g 2 i == typePCn,
      isPcBranch := fun k => g 3 k == typePCb,
      jdm := fun k => g 4 k, jdp := fun k => g 5 k, jdp1 := fun k => g 6 k, jdmn := fun k => g 7 k,
      lvb := fun k => g 8 k, lvf := fun k => g 9 k, lvt := fun k => g 10 k,
      load := fun i => g 11 i, msl := fun i => g 12 i, jmsl := fun i => g 13 i }
  let slack := (List.finRange n).filter S.isSlack
  let dim := n + b + slack.length
  let cols := List.range dim
  let rowStr := fun (r : HydVec Int n b → Int) => " ".intercalate (cols.map fun c => toString (r (unitHyd n b c slack)))
  let rowsN := (List.finRange n).map fun i => rowStr (S.nodeRow i)
  let rowsB := (List.finRange b).map fun k => rowStr (S.branchRow k)
  let rowsS := slack.map fun i => rowStr (S.slackRow i)
  let rhs := (List.finRange n).map (fun i => toString (S.nodeRhs i)) ++ (List.finRange b).map (fun k => toString (S.branchRhs k))
             ++ slack.map (fun i => toString (S.slackRhs i))
  ";".intercalate (rowsN ++ rowsB ++ rowsS) ++ " # " ++ " ".intercalate rhs

def unitHeat (n b : Nat) (c : Nat) : HeatVec Int n b :=
  { t := fun i => if i.val = c then 1 else 0, tout := fun k => if n + k.val = c then 1 else 0 }

/-- fields: fn | tn | nodeTypeT | infeed | jdt | jdtout | jdtn | jdtoutn | jdtnn | lvbt | lvtt | loadT -/
def denseHeat (n b : Nat) (hn : 0 < n) (typeT : Int) (f : Array (Array Int)) : String :=
  let g := fun (j : Nat) (i : Nat) => getI (f.getD j #[]) i
  let S : HeatSys Int n b :=
    { fn := fun k => toFin n hn (g 0 k), tn := fun k => toFin n hn (g 1 k),
      isTSlack := fun i => g 2 i == typeT, infeed := fun i => g 3 i != 0,
      jdt := fun k => g 4 k, jdtout := fun k => g 5 k, jdtn := fun k => g 6 k, jdtoutn := fun k => g 7 k,
      jdtnn := fun i => g 8 i, lvbt := fun k => g 9 k, lvtt := fun k => g 10 k, loadT := fun i => g 11 i }
  let dim := n + b
  let cols := List.range dim
  let rowStr := fun (r : HeatVec Int n b → Int) => " ".intercalate (cols.map fun c => toString (r (unitHeat n b c)))
  let rowsN := (List.finRange n).map fun i => rowStr (S.nodeRow i)
  let rowsB := (List.finRange b).map fun k => rowStr (S.branchRow k)
  let rhs := (List.finRange n).map (fun i => toString (S.nodeRhs i)) ++ (List.finRange b).map (fun k => toString (S.branchRhs k))
  ";".intercalate (rowsN ++ rowsB) ++ " # " ++ " ".intercalate rhs

def handle (mode : String) (n b : Nat) (rest : String) (typeP typePCn typePCb typeT : Int) : String :=
  if h : 0 < n then
    let f := parseFields rest
    if mode == "hyd" then denseHyd n b h typeP typePCn typePCb f else denseHeat n b h typeT f
  else "bad-op"

end PPV.Model.Assemble.Run
