/-
  Model of `pf/build_system_matrix.py: build_system_matrix` (hydraulic and thermal mode).

  The code assembles COO triplets (duplicates are summed by scipy) and a right-hand side.  The model
  gives, for every equation row, the linear form the assembled row represents (`*Row`) and its
  right-hand side (`*Rhs`); `denseHyd` / `denseHeat` turn that into the dense matrix by applying the
  rows to unit vectors -- that is what the correspondence check compares, entry by entry and exactly
  (integers), with the real `build_system_matrix`.

  Unknown vector layout (as in the code): pressures of the n nodes, mass flows of the b branches,
  slack masses of the slack nodes in increasing node order.

  Core-only; polymorphic in the scalar type (run at `Int` by the driver, at `ℝ` in the theorems).
-/
namespace PPV.Model.Assemble

variable {α : Type} [Add α] [Mul α] [Neg α] [Zero α] [One α]

/-- `Σ_{k : Fin b} f k` as an executable right fold -/
def sumFin {b : Nat} (f : Fin b → α) : α := (List.finRange b).foldr (fun k acc => f k + acc) 0

/-- one hydraulic linearisation: what `build_system_matrix(heat_mode=False)` reads from the pits -/
structure HydSys (α : Type) (n b : Nat) where
  fn : Fin b → Fin n            -- FROM_NODE
  tn : Fin b → Fin n            -- TO_NODE
  isSlack : Fin n → Bool        -- NODE_TYPE == P
  isPcNode : Fin n → Bool       -- NODE_TYPE == PC
  isPcBranch : Fin b → Bool     -- BRANCH_TYPE == PC
  jdm : Fin b → α               -- JAC_DERIV_DM
  jdp : Fin b → α               -- JAC_DERIV_DP
  jdp1 : Fin b → α              -- JAC_DERIV_DP1
  jdmn : Fin b → α              -- JAC_DERIV_DM_NODE
  lvb : Fin b → α               -- LOAD_VEC_BRANCHES
  lvf : Fin b → α               -- LOAD_VEC_NODES_FROM
  lvt : Fin b → α               -- LOAD_VEC_NODES_TO
  load : Fin n → α              -- LOAD
  msl : Fin n → α               -- MDOTSLACKINIT
  jmsl : Fin n → α              -- JAC_DERIV_MSL

/-- the unknowns of the linear system, slack masses indexed by their node -/
structure HydVec (α : Type) (n b : Nat) where
  p : Fin n → α
  m : Fin b → α
  s : Fin n → α

namespace HydSys
variable {n b : Nat} (S : HydSys α n b)

/-- nodes of type PC in node order / branches of type PC in branch order: the code pairs the k-th
    PC branch row with the k-th PC node column -/
def pcNodes : List (Fin n) := (List.finRange n).filter S.isPcNode
def pcBranches : List (Fin b) := (List.finRange b).filter S.isPcBranch
def pcPartner (k : Fin b) : Option (Fin n) :=
  match S.pcBranches.idxOf? k with
  | some j => S.pcNodes[j]?
  | none => none

/-- Σ over branches leaving node i of `w k`, minus ... : the two incidence sums used everywhere -/
def sumFrom (i : Fin n) (w : Fin b → α) : α := sumFin (fun k => if S.fn k = i then w k else 0)
def sumTo (i : Fin n) (w : Fin b → α) : α := sumFin (fun k => if S.tn k = i then w k else 0)

/-- left-hand side of the equation stored in matrix row `i` (a node row) -/
def nodeRow (i : Fin n) (x : HydVec α n b) : α :=
  if S.isSlack i then x.p i
  else S.sumFrom i (fun k => (-(S.jdmn k)) * x.m k) + S.sumTo i (fun k => S.jdmn k * x.m k)

def nodeRhs (i : Fin n) : α :=
  if S.isSlack i then 0
  else (-(S.load i)) + (-(S.sumFrom i S.lvf)) + S.sumTo i S.lvt

/-- matrix row `n + k` (a branch row) -/
def branchRow (k : Fin b) (x : HydVec α n b) : α :=
  S.jdm k * x.m k + S.jdp k * x.p (S.fn k) + S.jdp1 k * x.p (S.tn k)
    + (match S.pcPartner k with | some j => x.p j | none => 0)

def branchRhs (k : Fin b) : α := if S.isPcBranch k then 0 else S.lvb k

/-- matrix row of the slack-mass equation of slack node `i` -/
def slackRow (i : Fin n) (x : HydVec α n b) : α :=
  S.sumFrom i (fun k => (-(S.jdmn k)) * x.m k) + S.sumTo i (fun k => S.jdmn k * x.m k) + S.jmsl i * x.s i

def slackRhs (i : Fin n) : α :=
  (-(S.load i)) + (-(S.sumFrom i S.lvf)) + S.sumTo i S.lvt + (-(S.msl i))

/-- `x` solves the assembled system `J x = ε` -/
def Solves (x : HydVec α n b) : Prop :=
  (∀ i, S.nodeRow i x = S.nodeRhs i) ∧ (∀ k, S.branchRow k x = S.branchRhs k) ∧
  (∀ i, S.isSlack i = true → S.slackRow i x = S.slackRhs i)

end HydSys

/-! ### thermal mode -/

/-- one thermal linearisation (`heat_mode=True`); `fn`/`tn` are the flow-corrected ends -/
structure HeatSys (α : Type) (n b : Nat) where
  fn : Fin b → Fin n
  tn : Fin b → Fin n
  isTSlack : Fin n → Bool       -- NODE_TYPE_T == T
  infeed : Fin n → Bool         -- INFEED
  jdt : Fin b → α               -- JAC_DERIV_DT
  jdtout : Fin b → α            -- JAC_DERIV_DTOUT
  jdtn : Fin b → α              -- JAC_DERIV_DT_NODE
  jdtoutn : Fin b → α           -- JAC_DERIV_DTOUT_NODE
  jdtnn : Fin n → α             -- JAC_DERIV_DT_N
  lvbt : Fin b → α              -- LOAD_VEC_BRANCHES_T
  lvtt : Fin b → α              -- LOAD_VEC_NODES_TO_T
  loadT : Fin n → α             -- LOAD_T

structure HeatVec (α : Type) (n b : Nat) where
  t : Fin n → α
  tout : Fin b → α

namespace HeatSys
variable {n b : Nat} (S : HeatSys α n b)

def tSlackNodes : List (Fin n) := (List.finRange n).filter S.isTSlack
def infeedNodes : List (Fin n) := (List.finRange n).filter S.infeed
/-- the k-th infeed node's row receives a `1` in the column of the k-th T-slack node -/
def slackPartner (i : Fin n) : Option (Fin n) :=
  match S.infeedNodes.idxOf? i with
  | some j => S.tSlackNodes[j]?
  | none => none

def sumTo (i : Fin n) (w : Fin b → α) : α := sumFin (fun k => if S.tn k = i then w k else 0)

def nodeRow (i : Fin n) (x : HeatVec α n b) : α :=
  (if S.infeed i then 0
   else S.sumTo i (fun k => S.jdtn k * x.t i) + S.sumTo i (fun k => S.jdtoutn k * x.tout k) + S.jdtnn i * x.t i)
  + (match S.slackPartner i with | some j => x.t j | none => 0)

def nodeRhs (i : Fin n) : α :=
  if S.infeed i then 0 else (-(S.loadT i)) + S.sumTo i S.lvtt

def branchRow (k : Fin b) (x : HeatVec α n b) : α := S.jdt k * x.t (S.fn k) + S.jdtout k * x.tout k
def branchRhs (k : Fin b) : α := S.lvbt k

def Solves (x : HeatVec α n b) : Prop :=
  (∀ i, S.nodeRow i x = S.nodeRhs i) ∧ (∀ k, S.branchRow k x = S.branchRhs k)
end HeatSys

end PPV.Model.Assemble
