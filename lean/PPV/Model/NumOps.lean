/-
  NumOps: the tiny numeric interface all model and generated code is written against.
  Core-only (no Mathlib) so that the driver can run it at `Float`; `PPV/Real.lean` gives the
  noncomputable `ℝ` instance the theorems are stated in.
-/
namespace PPV

class NumOps (α : Type) extends Add α, Sub α, Mul α, Div α, Neg α, OfScientific α where
  ofN   : Nat → α
  nabs  : α → α
  nmax  : α → α → α
  nmin  : α → α → α
  nexp  : α → α
  nlog  : α → α          -- natural log
  nlog10 : α → α
  nsqrt : α → α
  npow  : α → α → α      -- real power (C `pow`)
  lt    : α → α → Bool
  le    : α → α → Bool
  neq   : α → α → Bool   -- IEEE `!=`
  isNaN : α → Bool
  pi    : α

instance : NumOps Float where
  ofN := Float.ofNat
  nabs := Float.abs
  -- numpy's maximum/minimum propagate NaN; python's builtin max/min do not. The kernels only
  -- ever call them with a literal second argument, where both agree unless the first is NaN.
  nmax := fun a b => if a.isNaN || b.isNaN then (0.0/0.0 : Float) else if a < b then b else a
  nmin := fun a b => if a.isNaN || b.isNaN then (0.0/0.0 : Float) else if b < a then b else a
  nexp := Float.exp
  nlog := Float.log
  nlog10 := Float.log10
  nsqrt := Float.sqrt
  npow := Float.pow
  lt := fun a b => a < b
  le := fun a b => a ≤ b
  neq := fun a b => a != b
  isNaN := Float.isNaN
  pi := 3.141592653589793

namespace NumOps
variable {α : Type} [NumOps α]

/-- `numpy.isclose(a, b, rtol, atol)` for finite arguments: `|a-b| ≤ atol + rtol*|b|`. -/
@[inline] def isclose (a b rtol atol : α) : Bool := le (nabs (a - b)) (atol + rtol * nabs b)

/-- `x ** 2` (numpy and numba both evaluate it as `x*x`). -/
@[inline] def sq (x : α) : α := x * x
/-- `x ** 3` evaluated through `pow` (numpy) -/
@[inline] def cube (x : α) : α := npow x (ofN 3)

@[inline] def sel (c : Bool) (a b : α) : α := if c then a else b
end NumOps

/-! hex transport of doubles over the line protocol -/
def hexDigit (c : Char) : UInt64 :=
  if c.isDigit then (c.toNat - 48).toUInt64 else if c.toNat ≥ 97 then (c.toNat - 87).toUInt64 else (c.toNat - 55).toUInt64
def hexToFloat (s : String) : Float := Float.ofBits (s.foldl (fun acc c => acc * 16 + hexDigit c) 0)
def floatToHex (f : Float) : String :=
  let n := f.toBits.toNat
  String.ofList ((List.range 16).reverse.map fun i => (Nat.toDigits 16 ((n / 16^i) % 16)).head!)

end PPV
