import PPV.Model.Connectivity
namespace PPV.Model.Connectivity.Run
open PPV.Model.Connectivity

def ints (s : String) : Array Nat := (((s.splitOn " ").filter (· ≠ "")).map (fun t => t.toNat?.getD 0)).toArray
def toFin (n : Nat) (h : 0 < n) (v : Nat) : Fin n := ⟨v % n, Nat.mod_lt _ h⟩
def bits (f : Fin m → Bool) : String := String.ofList ((List.finRange m).map fun i => if f i then '1' else '0')

/-- `conn n b :: fn :: tn :: brActive :: directed :: flowReturn :: nodeActive :: isSlack`
    → `nodes_connected branches_connected renumber…` -/
def handle (n b : Nat) (parts : List String) : String :=
  if h : 0 < n then
    let g := fun (j : Nat) (i : Nat) => (ints (parts.getD j "")).getD i 0
    let c : ConnIn n b :=
      { fn := fun k => toFin n h (g 1 k), tn := fun k => toFin n h (g 2 k), brActive := fun k => g 3 k != 0,
        directed := fun k => g 4 k != 0, flowReturn := fun k => g 5 k != 0, nodeActive := fun i => g 6 i != 0,
        isSlack := fun i => g 7 i != 0 }
    -- evaluate the search once; `toFun arr` is extensionally `c.nodesConnected`
    let arr := iterA c.edge (fun i => c.isSlack i && c.nodeActive i) n
    let nc : Fin n → Bool := toFun arr
    let ren := (List.finRange n).map fun i => if nc i then toString (renumber nc i) else "-"
    bits nc ++ " " ++ bits (c.branchesConnectedWith nc) ++ " " ++ ",".intercalate ren
  else "bad-op"
end PPV.Model.Connectivity.Run
