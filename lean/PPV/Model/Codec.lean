/-
  Model of the pandapipes-owned part of the JSON codec (`properties/fluids.py: *.to_dict / from_dict`,
  `io/io_utils.py: json_net`): fluid property classes, the fluid, and the net-level key filter.  Tables are
  serialised by pandas / pandapower; their codec is a parameter with a round-trip law.  Core-only.
-/
namespace PPV.Model.Codec

/-- JSON-like values as far as the pandapipes hooks produce them -/
inductive J where
  | null
  | num (q : Rat)
  | str (s : String)
  | bool (b : Bool)
  | nums (l : List Rat)                 -- numeric arrays (x / y / coefficient vectors)
  | obj (fields : List (String × J))
  deriving Repr

/-- the property classes of fluids.py with exactly the data their `to_dict` stores -/
inductive FProp where
  | inter (x y : List Rat) (extrapolate : Bool)     -- FluidPropertyInterExtra: interp1d x, y, fill_value
  | const (v : Rat) (warn : Bool)                   -- FluidPropertyConstant: value, warn_dependent_variables
  | lin (slope offset : Rat)                        -- FluidPropertyLinear
  | poly (coeffs intCoeffs : List Rat)              -- FluidPropertyPolynominal: poly1d coefficient vectors
  | suth (eta0 t0 tS : Rat)                         -- FluidPropertySutherland
  deriving DecidableEq, Repr

def field (fs : List (String × J)) (k : String) : Option J :=
  match fs with
  | [] => none
  | (k', v) :: t => if k' = k then some v else field t k

def encProp : FProp → J
  | .inter x y e => .obj [("_class", .str "FluidPropertyInterExtra"), ("x", .nums x), ("y", .nums y),
                          ("_fill_value_orig", if e then .str "extrapolate" else .null)]
  | .const v w => .obj [("_class", .str "FluidPropertyConstant"), ("value", .num v), ("warn_dependent_variables", .bool w)]
  | .lin s o => .obj [("_class", .str "FluidPropertyLinear"), ("slope", .num s), ("offset", .num o)]
  | .poly c ci => .obj [("_class", .str "FluidPropertyPolynominal"), ("prop_getter", .nums c), ("prop_int_getter", .nums ci)]
  | .suth e t ts => .obj [("_class", .str "FluidPropertySutherland"), ("eta0", .num e), ("t0", .num t), ("t_sutherland", .num ts)]

/-- the keys `to_dict` stores for a property (without the class signature) -/
def fieldNames (p : FProp) : List String :=
  match encProp p with
  | .obj fs => (fs.map Prod.fst).filter (· != "_class")
  | _ => []

def decProp : J → Option FProp
  | .obj fs =>
    match field fs "_class" with
    | some (.str "FluidPropertyInterExtra") =>
      match field fs "x", field fs "y", field fs "_fill_value_orig" with
      | some (.nums x), some (.nums y), some (.str "extrapolate") => some (.inter x y true)
      | some (.nums x), some (.nums y), some .null => some (.inter x y false)
      | _, _, _ => none
    | some (.str "FluidPropertyConstant") =>
      match field fs "value", field fs "warn_dependent_variables" with
      | some (.num v), some (.bool w) => some (.const v w)
      | _, _ => none
    | some (.str "FluidPropertyLinear") =>
      match field fs "slope", field fs "offset" with
      | some (.num s), some (.num o) => some (.lin s o)
      | _, _ => none
    | some (.str "FluidPropertyPolynominal") =>
      match field fs "prop_getter", field fs "prop_int_getter" with
      | some (.nums c), some (.nums ci) => some (.poly c ci)
      | _, _ => none
    | some (.str "FluidPropertySutherland") =>
      match field fs "eta0", field fs "t0", field fs "t_sutherland" with
      | some (.num e), some (.num t), some (.num ts) => some (.suth e t ts)
      | _, _, _ => none
    | _ => none
  | _ => none

/-- `json_net`: every entry of the net whose key does not start with an underscore is written -/
def netKeys (keys : List String) : List String := keys.filter (fun k => !k.startsWith "_")

structure NetDoc (T : Type) where
  name : String
  sector : String
  userOptions : List (String × String)
  componentList : List String
  fluidName : String
  fluidProps : List (String × FProp)
  tables : List (String × T)

structure NetJson where
  name : String
  sector : String
  userOptions : List (String × String)
  componentList : List String
  fluidName : String
  fluidProps : List (String × J)
  tables : List (String × J)

def encNet {T : Type} (encT : T → J) (n : NetDoc T) : NetJson :=
  { name := n.name, sector := n.sector, userOptions := n.userOptions, componentList := n.componentList,
    fluidName := n.fluidName, fluidProps := n.fluidProps.map (fun p => (p.1, encProp p.2)),
    tables := n.tables.map (fun p => (p.1, encT p.2)) }

def decList {A : Type} (dec : J → Option A) : List (String × J) → Option (List (String × A))
  | [] => some []
  | (k, j) :: t => match dec j, decList dec t with
                   | some a, some r => some ((k, a) :: r)
                   | _, _ => none

def decNet {T : Type} (decT : J → Option T) (j : NetJson) : Option (NetDoc T) :=
  match decList decProp j.fluidProps, decList decT j.tables with
  | some ps, some ts => some { name := j.name, sector := j.sector, userOptions := j.userOptions,
                               componentList := j.componentList, fluidName := j.fluidName, fluidProps := ps, tables := ts }
  | _, _ => none

end PPV.Model.Codec
