/-
  Model of `topology/create_graph.py: create_nxgraph / add_branch_component` (edge list of the multigraph) and of
  `graph_searches.unsupplied_junctions`.  networkx (graph container, connected components, Dijkstra) is library
  code: components are modelled by reachability over the edge list.  Core-only, executable.
-/
namespace PPV.Model.NxGraph

structure GBranch where
  table : String
  idx : Nat
  fj : Nat
  tj : Nat
  inService : Bool          -- the component's active identifier (in_service / opened)
  pipeValve : Bool := false -- a valve with et == "pi": `tj` is then a pipe index, not a junction
  deriving DecidableEq, Repr

structure Edge where
  u : Nat
  v : Nat
  table : String
  idx : Nat
  deriving DecidableEq, Repr

/-- pipes whose edge is removed because a closed junction–pipe valve sits on them -/
def cutPipes (bs : List GBranch) : List Nat :=
  (bs.filter (fun b => b.pipeValve && !b.inService)).map (·.tj)

/-- the edge list: one edge per junction-to-junction branch element that is in service (or for all of them
    when the status is not respected); junction–pipe valves contribute no edge; with `respectValves` a pipe
    carrying a closed junction–pipe valve contributes none either; edges at out-of-service junctions vanish
    with their node -/
def edges (bs : List GBranch) (respectStatus respectValves : Bool) (deadJunctions : List Nat) : List Edge :=
  let cut := if respectValves then cutPipes bs else []
  ((bs.filter fun b => !b.pipeValve && (!respectStatus || b.inService) &&
        !(b.table == "pipe" && cut.contains b.idx) &&
        !(deadJunctions.contains b.fj || deadJunctions.contains b.tj)).map
    fun b => ⟨b.fj, b.tj, b.table, b.idx⟩)

/-- one round of component growth over undirected edges -/
def grow (es : List Edge) (vis : List Nat) : List Nat :=
  es.foldl (fun acc e =>
    let acc := if acc.contains e.u && !acc.contains e.v then e.v :: acc else acc
    if acc.contains e.v && !acc.contains e.u then e.u :: acc else acc) vis

def growN (es : List Edge) : Nat → List Nat → List Nat
  | 0, vis => vis
  | k + 1, vis => growN es k (grow es vis)

/-- `unsupplied_junctions`: nodes of the graph that are in no component containing a slack junction -/
def unsupplied (nodes : List Nat) (es : List Edge) (slacks : List Nat) : List Nat :=
  let reached := growN es nodes.length (slacks.filter nodes.contains)
  nodes.filter (fun j => !reached.contains j)

end PPV.Model.NxGraph
