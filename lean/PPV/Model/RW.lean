/-
  Checker for the generated read/write event list of `pipeflow` (Gen/RWSets.lean) and an abstract
  purity lemma: a sequence of steps that only ever reads keys bound earlier in the same sequence (or user
  inputs) produces a final state that does not depend on the initial values of the internal keys.
-/
import PPV.Gen.RWSets
namespace PPV.Model.RW
open PPV.Gen.RWSets

def inter (a b : List String) : List String := a.filter (fun k => b.contains k)

/-- walk the event list; `avail` = keys bound on every path so far in this call; the stack holds, per open
    branch / loop, the availability at its entry and (after `E`) the result of its first arm -/
def check : List (Kind × String) → List String → List (List String × Option (List String)) → Bool
  | [], _, _ => true
  | (.R, k) :: t, avail, st => avail.contains k && check t avail st
  | (.U, k) :: t, avail, st => avail.contains k && check t avail st
  | (.T, _) :: t, avail, st => check t avail st
  | (.W, k) :: t, avail, st => check t (k :: avail) st
  | (.D, k) :: t, avail, st => check t (avail.filter (· != k)) st
  | (.B, _) :: t, avail, st => check t avail ((avail, none) :: st)
  | (.L, _) :: t, avail, st => check t avail ((avail, none) :: st)
  | (.E, _) :: t, avail, (a0, _) :: st => check t a0 ((a0, some avail) :: st)
  | (.E, _) :: _, _, [] => false
  | (.X, _) :: t, avail, (_, some r) :: st => check t (inter r avail) st
  | (.X, _) :: t, avail, (a0, none) :: st => check t (inter a0 avail) st
  | (.X, _) :: _, _, [] => false
  | (.M, _) :: t, avail, (a0, _) :: st => check t (inter a0 avail) st
  | (.M, _) :: _, _, [] => false

/-- keys the user owns and may legitimately be read before being written -/
def userKeys : List String := ["user_pf_options"]

/-! ### abstract purity lemma -/

structure Step (K V : Type) where
  reads : List K
  writes : List K
  f : (K → V) → K → V

variable {K V : Type} [DecidableEq K]

def Step.apply (s : Step K V) (st : K → V) : K → V := fun k => if k ∈ s.writes then s.f st k else st k

/-- a step's outputs depend only on the keys it declares to read -/
def Step.Local (s : Step K V) : Prop :=
  ∀ st st' : K → V, (∀ k ∈ s.reads, st k = st' k) → ∀ k ∈ s.writes, s.f st k = s.f st' k

def run (steps : List (Step K V)) (st : K → V) : K → V := steps.foldl (fun acc s => s.apply acc) st

/-- every read is of a key that is available (user input or written earlier in the sequence) -/
def noStale : List (Step K V) → List K → Prop
  | [], _ => True
  | s :: t, avail => (∀ k ∈ s.reads, k ∈ avail) ∧ noStale t (s.writes ++ avail)

end PPV.Model.RW
