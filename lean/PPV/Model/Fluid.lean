/-
  Model of the fluid library (`properties/fluids.py`): interpolated properties
  (`scipy.interpolate.interp1d(x, y, fill_value="extrapolate")`, linear), constant and linear properties with
  their integrals, the mixture rules of `properties_toolbox.py`, and the pump curve of
  `std_types/std_type_class.py: PumpStdType.get_pressure`.  Core-only, executable over `Rat`.
-/
namespace PPV.Model.Fluid

structure FluidLib where
  name : String
  density : List (Rat × Rat)
  viscosity : List (Rat × Rat)
  heat_capacity : List (Rat × Rat)
  molarMass : Rat
  derCompressibility : Rat
  comprSlope : Rat
  comprOffset : Rat
  lhv : Option Rat
  hhv : Option Rat

/-- value on the straight line through two knots -/
def seg (x0 y0 x1 y1 x : Rat) : Rat := y0 + (y1 - y0) * (x - x0) / (x1 - x0)

/-- piecewise-linear interpolation with linear extrapolation from the first / last segment -/
def interp : List (Rat × Rat) → Rat → Rat
  | [], _ => 0
  | [(_, y)], _ => y
  | (x0, y0) :: (x1, y1) :: rest, x =>
      if x ≤ x1 || rest.isEmpty then seg x0 y0 x1 y1 x else interp ((x1, y1) :: rest) x

/-- `FluidPropertyInterExtra.get_at_integral_value(upper, lower)`: trapezoid between the two limits -/
def interIntegral (tbl : List (Rat × Rat)) (upper lower : Rat) : Rat :=
  (interp tbl upper + interp tbl lower) / 2 * (upper - lower)

/-- `FluidPropertyConstant` -/
def constIntegral (v upper lower : Rat) : Rat := v * upper - v * lower

/-- `FluidPropertyLinear`: value and integral -/
def linValue (slope offset x : Rat) : Rat := offset + slope * x
def linIntegral (slope offset upper lower : Rat) : Rat :=
  (offset * upper + (1/2) * slope * (upper * upper)) - (offset * lower + (1/2) * slope * (lower * lower))

/-- `calculate_mixture_molar_mass` from molar fractions: Σ xᵢ Mᵢ -/
def mixMolarMass (x m : List Rat) : Rat := (List.zipWith (· * ·) x m).sum

/-- `calculate_mass_fraction_from_molar_fraction`: wᵢ = xᵢ Mᵢ / Σ xⱼ Mⱼ -/
def massFractions (x m : List Rat) : List Rat := (List.zipWith (· * ·) x m).map (· / mixMolarMass x m)

/-- `calculate_mixture_heat_capacity`: Σ wᵢ cᵢ -/
def mixHeatCapacity (c w : List Rat) : Rat := (List.zipWith (· * ·) w c).sum

/-- `calculate_mixture_density`: 1 / Σ wᵢ/ρᵢ -/
def mixDensity (rho w : List Rat) : Rat := 1 / (List.zipWith (· / ·) w rho).sum

/-- regression polynomial `Σ regPar[i] · (3600·v)^(len-1-i)` (highest power first, as `numpy.polyfit` returns it) -/
def polyEval : List Rat → Rat → Rat
  | [], _ => 0
  | c :: t, z => c * z ^ t.length + polyEval t z

/-- `PumpStdType.get_pressure` for one volume flow in m³/s -/
def pumpPressure (regPar : List Rat) (vdot : Rat) : Rat :=
  if vdot < 0 then 0 else max 0 (polyEval regPar (vdot * 3600))

end PPV.Model.Fluid
