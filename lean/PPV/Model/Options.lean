/-
  Model of option resolution: `pf/pipeflow_setup.py: init_options, _iteration_check, _mode_check`.
  Python dicts are association lists with dict semantics (`dput` replaces an existing key in place,
  otherwise appends); values are a small sum type.  Core-only, executable.
-/
namespace PPV.Model.Options

inductive OptVal where
  | none
  | b (v : Bool)
  | i (v : Int)
  | f (repr : String)     -- a float, carried as python's repr (never compared numerically)
  | s (v : String)
  deriving DecidableEq, Repr, Inhabited

/-- python truthiness of an option value -/
def OptVal.truthy : OptVal → Bool
  | .none => false
  | .b v => v
  | .i v => v != 0
  | .f r => !(r == "0.0" || r == "-0.0")
  | .s v => v != ""

abbrev Layer := List (String × OptVal)

def dget (l : Layer) (k : String) : Option OptVal :=
  match l with
  | [] => none
  | (k', v) :: t => if k' = k then some v else dget t k

def dput (l : Layer) (k : String) (v : OptVal) : Layer :=
  match l with
  | [] => [(k, v)]
  | (k', v') :: t => if k' = k then (k, v) :: t else (k', v') :: dput t k v

def ddel (l : Layer) (k : String) : Layer := l.filter (fun p => p.1 != k)

/-- `{**a, **b}` -/
def dmerge (a b : Layer) : Layer := b.foldl (fun acc p => dput acc p.1 p.2) a

def stageKeys : List String := ["max_iter_hyd", "max_iter_therm", "max_iter_bidirect"]

/-- `_iteration_check(opts)`: `iter` fills the stage limits this layer does not set itself -/
def iterationCheck (o : Layer) : Layer :=
  if o.isEmpty then o else
  match dget o "iter" with
  | Option.none => o
  | some .none => o
  | some n => stageKeys.foldl (fun acc key => if (dget acc key).isSome then acc else dput acc key n) o

/-- `_mode_check` -/
def modeCheck (o : Layer) : Layer :=
  if dget o "mode" = some (.s "all") then dput o "mode" (.s "sequential") else o

/-- `init_options(net, **kwargs)`; returns `net["_options"]`. `numbaInstalled`, `fluidName` are the two
environment inputs the function reads besides the three layers. -/
def merged (defaults user kw : Layer) : Layer :=
  dmerge (dmerge defaults (iterationCheck user)) (iterationCheck kw)

/-- `keys_to_exclude` -/
def dropExcluded (o : Layer) : Layer := ddel (ddel o "interactive_plotting") "t_start"

/-- `if not opts["only_update_hydraulic_matrix"]: opts["reuse_internal_data"] = False` -/
def stepReuse (o : Layer) : Layer :=
  if ((dget o "only_update_hydraulic_matrix").getD .none).truthy then o
  else dput o "reuse_internal_data" (.b false)

/-- `if not numba_installed: opts["use_numba"] = False` -/
def stepNumba (numbaInstalled : Bool) (o : Layer) : Layer :=
  if numbaInstalled then o else dput o "use_numba" (.b false)

def initOptions (defaults user kw : Layer) (numbaInstalled : Bool) (fluidName : String) : Layer :=
  modeCheck (dput (stepNumba numbaInstalled (stepReuse (dropExcluded (merged defaults user kw)))) "fluid" (.s fluidName))

end PPV.Model.Options
