/-
  Model of the restructuring tools of `toolbox.py` on the reference skeleton of a net: every element is a
  row with its table, index, junction references (from / to / junction / controlled junction …) and an
  optional pipe reference (the `element` of a junction–pipe valve).  This is the *specification*: what the
  documented behaviour of reindex / drop / fuse / select means for references.  The correspondence check
  runs the real functions and the model on the same operation sequences and reports where they differ.
-/
namespace PPV.Model.Toolbox

structure Elem where
  table : String
  idx : Nat
  jrefs : List Nat
  pref : Option Nat
  deriving DecidableEq, Repr

structure Net where
  junctions : List Nat
  pipes : List Elem          -- table = "pipe", two junction references, no pipe reference
  elems : List Elem          -- everything else that references junctions or pipes
  deriving Repr

def Net.pipeIdx (n : Net) : List Nat := n.pipes.map (·.idx)

/-- referential integrity: every junction / pipe reference resolves -/
def RI (n : Net) : Prop :=
  (∀ e ∈ n.pipes, ∀ j ∈ e.jrefs, j ∈ n.junctions) ∧
  (∀ e ∈ n.elems, (∀ j ∈ e.jrefs, j ∈ n.junctions) ∧ (∀ p, e.pref = some p → p ∈ n.pipeIdx))

def Elem.mapJ (σ : Nat → Nat) (e : Elem) : Elem := { e with jrefs := e.jrefs.map σ }
def Elem.mapP (σ : Nat → Nat) (e : Elem) : Elem := { e with pref := e.pref.map σ }

/-- `reindex_junctions`: relabel junctions and follow with every junction reference -/
def reindexJunctions (σ : Nat → Nat) (n : Net) : Net :=
  { junctions := n.junctions.map σ, pipes := n.pipes.map (Elem.mapJ σ), elems := n.elems.map (Elem.mapJ σ) }

/-- `reindex_pipes`: relabel pipes and follow with the junction–pipe valves -/
def reindexPipes (σ : Nat → Nat) (n : Net) : Net :=
  { n with pipes := n.pipes.map (fun e => { e with idx := σ e.idx }), elems := n.elems.map (Elem.mapP σ) }

def touches (js : List Nat) (e : Elem) : Bool := e.jrefs.any (fun j => js.contains j)

/-- `drop_pipes`: the pipes go, and with them the valves attached to them -/
def dropPipes (ps : List Nat) (n : Net) : Net :=
  { n with pipes := n.pipes.filter (fun e => !ps.contains e.idx),
           elems := n.elems.filter (fun e => match e.pref with | some p => !ps.contains p | none => true) }

/-- `drop_junctions` (with `drop_elements=True`): junctions, everything attached to them, and what hangs on a
    dropped pipe -/
def dropJunctions (js : List Nat) (n : Net) : Net :=
  let deadPipes := (n.pipes.filter (touches js)).map (·.idx)
  let n1 : Net := { junctions := n.junctions.filter (fun j => !js.contains j), pipes := n.pipes,
                    elems := n.elems.filter (fun e => !touches js e) }
  dropPipes deadPipes n1

/-- `fuse_junctions j1 j2s`: redirect every reference to a junction of `j2s` to `j1`, drop `j2s` -/
def fuseJunctions (j1 : Nat) (j2s : List Nat) (n : Net) : Net :=
  let σ := fun j => if j2s.contains j && j != j1 then j1 else j
  { junctions := n.junctions.filter (fun j => !(j2s.contains j && j != j1)),
    pipes := n.pipes.map (Elem.mapJ σ), elems := n.elems.map (Elem.mapJ σ) }

inductive Op where
  | reindexJ (shift : Nat)        -- σ j = j + shift (injective relabelling used by the correspondence)
  | reindexP (shift : Nat)
  | dropJ (js : List Nat)
  | dropP (ps : List Nat)
  | fuse (j1 : Nat) (j2s : List Nat)
  deriving Repr

def Op.apply : Op → Net → Net
  | .reindexJ s, n => reindexJunctions (· + s) n
  | .reindexP s, n => reindexPipes (· + s) n
  | .dropJ js, n => dropJunctions js n
  | .dropP ps, n => dropPipes ps n
  | .fuse j1 j2s, n => fuseJunctions j1 j2s n

end PPV.Model.Toolbox
