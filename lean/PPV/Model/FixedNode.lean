/-
  Model of `component_toolbox.set_fixed_node_entries` for one junction: every call contributes the sum and the
  number of the in-service fixing elements of one component type; the stored value is the running mean.
  Also the small lift rules of `Compressor.adaption_before_derivatives_hydraulic`.
-/
namespace PPV.Model.FixedNode

/-- state of one node: (fixed value, EXT_GRID_OCCURENCE count) -/
structure Fixed (α : Type) where
  value : α
  count : Nat

variable {α : Type} [Add α] [Mul α] [Div α] [NatCast α]

/-- one call: `value := (value*count + val_sum) / (number + count); count += number` -/
def setEntry (s : Fixed α) (valSum : α) (number : Nat) : Fixed α :=
  { value := (s.value * (s.count : α) + valSum) / ((number : α) + (s.count : α)), count := s.count + number }

/-- several calls in sequence (ext grids, then circulation pumps, …), each a (sum, number) group -/
def setEntries (s : Fixed α) (groups : List (α × Nat)) : Fixed α :=
  groups.foldl (fun acc g => setEntry acc g.1 g.2) s

/-- compressor: lift `p_from,abs·(ratio − 1)`, forced to zero for reverse flow -/
def compressorLift [Sub α] [Zero α] (lt : α → α → Bool) (pFromAbs ratio mdot : α) : α :=
  if lt mdot 0 then 0 else pFromAbs * ratio - pFromAbs

end PPV.Model.FixedNode
