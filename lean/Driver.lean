/-
  Line-protocol driver: one operation per input line, one result line per operation.
  Imports only core-only model and generated files (no Mathlib) so that it can be compiled.
-/
import PPV.Model.NumOps
import PPV.Gen.KernelRun
import PPV.Gen.ComponentRun
import PPV.Model.GasResults
import PPV.Gen.Idx
import PPV.Model.AssembleRun
import PPV.Model.OptionsRun
import PPV.Model.NewtonRun
import PPV.Model.ConnectivityRun
import PPV.Model.FixedNode
import PPV.Model.GroupSum
import PPV.Gen.FluidData
import PPV.Model.ToolboxRun
import PPV.Model.NxGraphRun
import PPV.Gen.Coupling
import PPV.Model.Codec

open PPV

def handle (line : String) : String :=
  match (line.trimAscii.toString.splitOn " ").filter (· ≠ "") with
  | "kernel" :: name :: args =>
    match PPV.Gen.KernelRun.run name (args.map hexToFloat).toArray with
    | some r => " ".intercalate (r.toList.map floatToHex)
    | none =>
      match PPV.Gen.ComponentRun.run name (args.map hexToFloat).toArray with
      | some r => " ".intercalate (r.toList.map floatToHex)
      | none =>
        match PPV.Model.GasResults.run name (args.map hexToFloat).toArray with
        | some r => " ".intercalate (r.toList.map floatToHex)
        | none => "bad-kernel"
  | "asm" :: mode :: n :: b :: _ =>
    -- the rest of the line after the 4th token is the `|`-separated field list
    let rest := (line.trimAscii.toString.splitOn "::").getD 1 ""
    PPV.Model.Assemble.Run.handle mode n.toNat! b.toNat! rest
      PPV.Gen.IdxNode.ty_P PPV.Gen.IdxNode.ty_PC PPV.Gen.IdxBranch.ty_PC PPV.Gen.IdxNode.ty_T
  | "options" :: numba :: fluid :: _ =>
    let parts := line.trimAscii.toString.splitOn "::"
    PPV.Model.Options.Run.handle numba fluid (parts.getD 1 "") (parts.getD 2 "")
  | "newton" :: auto :: maxIter :: alpha0 :: _ =>
    PPV.Model.Newton.Run.handle auto maxIter alpha0 (line.trimAscii.toString.splitOn "::")
  | "conn" :: n :: b :: _ =>
    PPV.Model.Connectivity.Run.handle n.toNat! b.toNat! (line.trimAscii.toString.splitOn "::")
  | "fixed" :: v0 :: _ =>
    -- `fixed <v0> :: sum num ; sum num ; …`  (rationals as p/q)  → value count
    let groups := ((((line.trimAscii.toString.splitOn "::").getD 1 "").splitOn ";").filter (fun t => t.trimAscii.toString ≠ "")).map
      fun g => match PPV.Model.Newton.Run.toks g with
        | [a, b] => (PPV.Model.Newton.Run.parseRat a, b.toNat!)
        | _ => ((0 : Rat), 0)
    let r := PPV.Model.FixedNode.setEntries (α := Rat) ⟨PPV.Model.Newton.Run.parseRat v0, 0⟩ groups
    s!"{PPV.Model.Newton.Run.showRat r.value} {r.count}"
  | "groupsum" :: _ =>
    -- `groupsum :: idx… :: vals…` (integers) → `key:sum …` three times must coincide: spec, bucket, numpy variant
    let parts := line.trimAscii.toString.splitOn "::"
    let idx := (PPV.Model.Newton.Run.toks (parts.getD 1 "")).map (fun t => t.toNat!)
    let vals := (PPV.Model.Newton.Run.toks (parts.getD 2 "")).map (fun t => t.toInt!)
    let pairs := idx.zip vals
    let sh := fun (l : List (Nat × Int)) => " ".intercalate (l.map fun p => s!"{p.1}:{p.2}")
    let a := sh (PPV.Model.GroupSum.groupSpec pairs)
    let b := sh (PPV.Model.GroupSum.groupBucket pairs)
    let c := sh (PPV.Model.GroupSum.groupNp pairs)
    if a == b && b == c then a else s!"MODEL-VARIANTS-DIFFER spec[{a}] bucket[{b}] np[{c}]"
  | ["fluid", name, prop, x] =>
    match PPV.Gen.FluidData.library.find? (fun f => f.name == name) with
    | none => "unknown-fluid"
    | some f =>
      let q := PPV.Model.Newton.Run.parseRat x
      let sh := PPV.Model.Newton.Run.showRat
      match prop with
      | "density" => sh (PPV.Model.Fluid.interp f.density q)
      | "viscosity" => sh (PPV.Model.Fluid.interp f.viscosity q)
      | "heat_capacity" => sh (PPV.Model.Fluid.interp f.heat_capacity q)
      | "compressibility" => sh (PPV.Model.Fluid.linValue f.comprSlope f.comprOffset q)
      | "der_compressibility" => sh f.derCompressibility
      | "molar_mass" => sh f.molarMass
      | _ => "unknown-prop"
  | "pump" :: _ =>
    let parts := line.trimAscii.toString.splitOn "::"
    let reg := (PPV.Model.Newton.Run.toks (parts.getD 1 "")).map PPV.Model.Newton.Run.parseRat
    let v := PPV.Model.Newton.Run.parseRat ((parts.getD 2 "").trimAscii.toString)
    PPV.Model.Newton.Run.showRat (PPV.Model.Fluid.pumpPressure reg v)
  | "toolbox" :: _ => PPV.Model.Toolbox.Run.handle (line.trimAscii.toString.splitOn "::")
  | "nxgraph" :: rs :: rv :: _ => PPV.Model.NxGraph.Run.handle rs rv (line.trimAscii.toString.splitOn "::")
  | "coupling" :: name :: args =>
    match PPV.Gen.Coupling.run name (args.map hexToFloat).toArray with
    | some r => floatToHex r
    | none => "bad-coupling"
  | ["codec", cls] =>
    let p : Option PPV.Model.Codec.FProp := match cls with
      | "FluidPropertyInterExtra" => some (.inter [] [] true)
      | "FluidPropertyConstant" => some (.const 0 false)
      | "FluidPropertyLinear" => some (.lin 0 0)
      | "FluidPropertyPolynominal" => some (.poly [] [])
      | "FluidPropertySutherland" => some (.suth 0 0 0)
      | _ => none
    match p with
    | some q => ",".intercalate (PPV.Model.Codec.fieldNames q)
    | none => "unknown-class"
  | _ => "bad-op"

partial def loop (h : IO.FS.Stream) (out : IO.FS.Stream) : IO Unit := do
  let line ← h.getLine
  if line.isEmpty then return ()
  out.putStrLn (handle line)
  loop h out

def main : IO Unit := do
  let out ← IO.getStdout
  loop (← IO.getStdin) out
  out.flush
