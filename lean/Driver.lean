/-
  Line-protocol driver: one operation per input line, one result line per operation.
  Imports only core-only model and generated files (no Mathlib) so that it can be compiled.
-/
import PPV.Model.NumOps
import PPV.Gen.KernelRun

open PPV

def handle (line : String) : String :=
  match (line.trimAscii.toString.splitOn " ").filter (· ≠ "") with
  | "kernel" :: name :: args =>
    match PPV.Gen.KernelRun.run name (args.map hexToFloat).toArray with
    | some r => " ".intercalate (r.toList.map floatToHex)
    | none => "bad-kernel"
  | _ => "bad-op"

partial def loop (h : IO.FS.Stream) (out : IO.FS.Stream) : IO Unit := do
  let line ← h.getLine
  if line.isEmpty then return ()
  out.putStrLn (handle line)
  loop h out

def main : IO Unit := do
  let out ← IO.getStdout
  loop (← IO.getStdin) out
  out.flush
